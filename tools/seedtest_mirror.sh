#!/bin/bash
# usage: [MIRROR_ID=n] seedtest_mirror.sh <patch.diff> <prop> [tier]   (MIRROR_ID: several mirrors side by side)
# Like seedtest.sh, but works on a scratch copy (/tmp/vmirror = copy of /verif/harness whose go.mod points to the
# scratch worktree /tmp/repo-seed), so that /repo and /verif/evidence stay untouched while other checks run there.
patch=$1; prop=$2; tier=${3:-quick}
I=${MIRROR_ID:-}; M=/tmp/vmirror$I; R=/tmp/repo-seed$I; O=/tmp/seedtest-mirror$I.out
mkdir -p $M
rsync -a --delete --exclude bin ${SRC_HARNESS:-/verif/harness}/ $M/harness/
cp /verif/check.sh /verif/known_findings.txt $M/
sed -i "s#=> /repo#=> $R#" $M/harness/go.mod
head=$(git -C /repo rev-parse HEAD)
if [ ! -d $R ]; then git -C /repo worktree add -q --detach $R $head || exit 2; fi
cd $R && git checkout -q -- . && git clean -fdq && git checkout -q --detach $head || exit 2
if [ "$patch" != none ]; then git apply "$patch" || { echo "PATCH DOES NOT APPLY"; exit 3; }; fi
cd $M
VERIF_DIR=$M timeout ${SEED_TIMEOUT:-900} ./check.sh $prop $tier > $O 2>&1
rc=$?
cd $R && git checkout -q -- . && git clean -fdq
echo "rc=$rc $(grep -c '^VIOLATION' $O) violation line(s)"
grep -A1 '^VIOLATION' $O | head -${SEED_LINES:-4} | cut -c1-${SEED_COLS:-500}
tail -1 $O | cut -c1-300
