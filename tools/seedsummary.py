#!/usr/bin/env python3
"""Rewrites the per-property summary of the seeded changes in DESIGN.md (between the markers) from seeded/*/meta.json."""
import json, glob, collections, re
rows = collections.OrderedDict()
for f in sorted(glob.glob('/verif/seeded/C??/?/meta.json')):
    m = json.load(open(f))
    p = m['property']
    r = rows.setdefault(p, {'n': 0, 'caught': 0, 'other': [], 'sigs': collections.Counter()})
    r['n'] += 1
    res = m.get('check', {}).get('result', 'not run')
    if res == 'caught':
        r['caught'] += 1
        for s in m['check'].get('signatures', [])[:1]:
            r['sigs'][re.sub(r'[:<|].*', '', s)] += 1
    else:
        r['other'].append('%s: %s' % (m['variant'], res))
    if m.get('check_with'):
        r['other'].append('%s: judged by the check of %s' % (m['variant'], m['check_with']))
out = ['| property | archived changes | caught by the quick check | first signatures (count) | remarks |', '|---|---|---|---|---|']
tot = c = 0
for p, r in rows.items():
    tot += r['n']; c += r['caught']
    out.append('| %s | %d | %d | %s | %s |' % (p, r['n'], r['caught'], ', '.join('%s (%d)' % kv for kv in r['sigs'].most_common(4)), '; '.join(r['other'])))
out.append('| all | %d | %d | | |' % (tot, c))
block = '\n'.join(out)
d = open('/verif/DESIGN.md').read()
a, b = '<!-- seedsummary:begin -->', '<!-- seedsummary:end -->'
if a in d:
    d = d[:d.index(a) + len(a)] + '\n' + block + '\n' + d[d.index(b):]
    open('/verif/DESIGN.md', 'w').write(d)
print(block)
