#!/bin/bash
# usage: seedtest.sh <patch.diff> <prop> [tier]   applies the patch to /repo, runs the check, reverts
patch=$1; prop=$2; tier=${3:-quick}
cd /repo || exit 2
if ! git diff --quiet; then echo "repo dirty"; exit 2; fi
git apply "$patch" || { echo "PATCH DOES NOT APPLY"; exit 3; }
cd /verif
timeout ${SEED_TIMEOUT:-900} ./check.sh $prop $tier > /tmp/seedtest.out 2>&1
rc=$?
git -C /repo checkout -- . ; git -C /repo clean -fdq
echo "rc=$rc $(grep -c '^VIOLATION' /tmp/seedtest.out) violation line(s)"
grep -A1 '^VIOLATION' /tmp/seedtest.out | head -${SEED_LINES:-4} | cut -c1-${SEED_COLS:-500}
tail -1 /tmp/seedtest.out | cut -c1-300
