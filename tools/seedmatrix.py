#!/usr/bin/env python3
"""Archives the seeded property-breaking changes under /verif/seeded/<prop>/<variant>/ and runs the
property's quick check against each of them (patch applied to /repo's working tree, reverted straight
afterwards; nothing is ever committed in /repo).

  tools/seedmatrix.py import <srcdir> [--wave2]   (--wave2: the C18 variants were delivered as C17/c,d) copy <srcdir>/<Cxx>/<v>/{patch[.ported].diff,demo_test.go,notes.txt}
  tools/seedmatrix.py run [Cxx[/v] ...]    run the checks, update meta.json and seeded/RESULTS.md
"""
import json, os, re, subprocess, sys, shutil, glob, time

SEEDED = '/verif/seeded'
# variants that were produced under another property's heading but break this one
REMAP = {('C17', 'c'): ('C18', 'a'), ('C17', 'd'): ('C18', 'b')}
DEMO_PKG = {'C04/a': '.', 'C15/a': '.', 'C15/b': '.', 'C03/a': '.', 'C03/b': '.', 'C17/a': 'value/export', 'C17/b': 'value/export',
            'C18/a': 'value/export', 'C18/b': 'value/export', 'C19/a': 'example', 'C19/b': 'example'}

def sections(text):
    lines = text.splitlines()
    underlined = sum(1 for i, l in enumerate(lines) if i > 0 and lines[i - 1].strip() and re.fullmatch(r'-{4,}', l.strip())) >= 3
    out, head, body = [], None, []
    if underlined:
        i = 0
        while i < len(lines):
            if i + 1 < len(lines) and re.fullmatch(r'[-=]{4,}', lines[i + 1].strip()) and lines[i].strip():
                if head is not None:
                    out.append((head, '\n'.join(body).strip()))
                head, body = lines[i].strip(), []
                i += 2
                continue
            if head is not None:
                body.append(lines[i])
            i += 1
    else:
        for ln in lines:
            if ln and not ln[0].isspace() and not ln.startswith(('=', '-', '$', '#')):
                if head is not None:
                    out.append((head, '\n'.join(body).strip()))
                head, body = ln.strip(), []
            elif head is not None:
                body.append(ln)
    if head is not None:
        out.append((head, '\n'.join(body).strip()))
    return out

def pick(secs, rx, notes=''):
    for h, b in secs:
        if re.search(rx, h, re.I):
            pos = notes.find(h)
            if pos >= 0:
                return notes[pos:pos + 1200].strip()
            return (h + '\n' + b).strip()[:1200]
    return ''

def do_import(src, remap=False):
    for d in sorted(glob.glob(src + '/C??/?/')):
        prop, var = d.rstrip('/').split('/')[-2:]
        tprop, tvar = REMAP.get((prop, var), (prop, var)) if remap else (prop, var)
        dst = f'{SEEDED}/{tprop}/{tvar}'
        os.makedirs(dst, exist_ok=True)
        ported = os.path.exists(d + 'patch.ported.diff')
        shutil.copy(d + ('patch.ported.diff' if ported else 'patch.diff'), dst + '/patch.diff')
        if ported:
            shutil.copy(d + 'patch.diff', dst + '/patch.original.diff')
        shutil.copy(d + 'demo_test.go', dst + '/demo_test.go')
        notes = open(d + 'notes.txt').read()
        open(dst + '/demonstration.md', 'w').write(notes)
        secs = sections(notes)
        meta = {}
        if os.path.exists(dst + '/meta.json'):
            meta = json.load(open(dst + '/meta.json'))
        meta.update({
            'property': tprop, 'variant': tvar,
            'origin': 'fresh sub-agent given only the text of property %s and a scratch git worktree of /repo; claims re-confirmed by tools/confirm_seed.sh' % tprop,
            'patch': 'patch.diff' + (' (hand-ported to the current HEAD after later fix commits moved the context; the sub-agent\'s original is patch.original.diff)' if ported else ''),
            'change': pick(secs, r'^change', notes) or notes[:800],
            'property_part_broken': pick(secs[1:], r'(sentence|part|law|which part).*(broken|break)|broken', notes),
            'needs_to_manifest': pick(secs[1:], r'needed|trigger|exact reproduction|what is needed|history needed', notes),
            'demo_package': DEMO_PKG.get(f'{tprop}/{tvar}', 'value'),
        })
        json.dump(meta, open(dst + '/meta.json', 'w'), indent=1)
        print('imported', dst)

MIRROR = os.environ.get('MIRROR') == '1'   # work on /tmp/repo-seed + /tmp/vmirror (see seedtest_mirror.sh) instead of /repo + /verif
MID = os.environ.get('MIRROR_ID', '')       # several mirrors side by side
REPO = '/tmp/repo-seed' + MID if MIRROR else '/repo'
VDIR = '/tmp/vmirror' + MID if MIRROR else '/verif'

def prepare_mirror():
    os.makedirs(VDIR, exist_ok=True)
    subprocess.run(['rsync', '-a', '--delete', '--exclude', 'bin', '/verif/harness/', VDIR + '/harness/'], check=True)
    for f in ('check.sh', 'known_findings.txt'):
        shutil.copy('/verif/' + f, VDIR + '/' + f)
    subprocess.run(['sed', '-i', 's#=> /repo#=> %s#' % REPO, VDIR + '/harness/go.mod'], check=True)
    head = subprocess.run(['git', '-C', '/repo', 'rev-parse', 'HEAD'], capture_output=True, text=True).stdout.strip()
    if not os.path.isdir(REPO):
        subprocess.run(['git', '-C', '/repo', 'worktree', 'add', '-q', '--detach', REPO, head], check=True)
    subprocess.run(['git', '-C', REPO, 'checkout', '-q', '--', '.'])
    subprocess.run(['git', '-C', REPO, 'clean', '-fdq'])
    subprocess.run(['git', '-C', REPO, 'checkout', '-q', '--detach', head], check=True)

def repo_clean():
    return subprocess.run(['git', '-C', REPO, 'status', '--porcelain'], capture_output=True, text=True).stdout.strip() == ''

def run(sel):
    if MIRROR:
        prepare_mirror()
    dirs = sorted(glob.glob(SEEDED + '/C??/?/'))
    for d in dirs:
        prop, var = d.rstrip('/').split('/')[-2:]
        if sel and not any(s == prop or s == f'{prop}/{var}' for s in sel):
            continue
        if not repo_clean():
            print('repo dirty - abort'); sys.exit(2)
        meta = json.load(open(d + 'meta.json'))
        t0 = time.time()
        if 'neutralised' in meta.get('check', {}).get('result', ''):
            print(prop, var, 'skipped:', meta['check']['result'], flush=True)
            continue
        cprop = meta.get('check_with', prop)   # a change that only another property's check can see (stated in meta.note)
        r = subprocess.run(['git', '-C', REPO, 'apply', d + 'patch.diff'])
        if r.returncode != 0:
            meta['check'] = {'result': 'patch does not apply'}
        else:
            try:
                env = dict(os.environ)
                if MIRROR:
                    env['VERIF_DIR'] = VDIR
                p = subprocess.run(['timeout', os.environ.get('SEED_TIMEOUT', '1000'), './check.sh', cprop, 'quick'], cwd=VDIR, capture_output=True, text=True, env=env)
            finally:
                subprocess.run(['git', '-C', REPO, 'checkout', '--', '.'])
                subprocess.run(['git', '-C', REPO, 'clean', '-fdq'])
            lines = p.stdout.splitlines()
            vio = [l for l in lines if l.startswith('VIOLATION')]
            sigs = []
            for l in lines:
                m = re.match(r'\s+sig=(\S+) ', l)
                if m and m.group(1) not in sigs:
                    sigs.append(m.group(1))
            first = ''
            for i, l in enumerate(lines):
                if l.startswith('VIOLATION') and i + 1 < len(lines):
                    first = lines[i + 1].strip()[:600]
                    break
            meta['check'] = {
                'command': f'git -C /repo apply seeded/{prop}/{var}/patch.diff && ./check.sh {cprop} quick (VERIF_SEED={os.environ.get("VERIF_SEED","1")}); git -C /repo checkout -- .',
                'exit_code': p.returncode, 'violation_lines': len(vio), 'signatures': sigs[:12], 'first_violation': first,
                'summary': lines[-1][:300] if lines else '', 'wall_s': round(time.time() - t0, 1),
                'result': 'caught' if p.returncode == 1 and vio else ('MISSED' if p.returncode == 0 else f'exit {p.returncode}'),
            }
        json.dump(meta, open(d + 'meta.json', 'w'), indent=1)
        print(prop, var, meta['check'].get('result'), meta['check'].get('signatures', [])[:3], meta['check'].get('wall_s'), flush=True)
    results()

def results():
    rows = []
    for d in sorted(glob.glob(SEEDED + '/C??/?/')):
        m = json.load(open(d + 'meta.json'))
        c = m.get('check', {})
        ch = ' '.join(m.get('change', '').split())
        ch = re.sub(r'^(Seed|Variant|C\d\d)[^:]*?--?\s*', '', ch)
        ch = re.sub(r'^Change\s*(\([^)]*\))?\s*:?\s*-*\s*', lambda mm: (mm.group(1) or '') + ' ', ch).strip()[:200].replace('|', '\\|')
        sg = ', '.join(x[:90].replace('|', '\\|') for x in c.get('signatures', [])[:2])
        rows.append("| %s/%s | %s | %s | %s | %s |" % (m['property'], m['variant'], ch, c.get('result', 'not run'), sg, c.get('wall_s', '')))
    open(SEEDED + '/RESULTS.md', 'w').write('# Seeded property-breaking changes vs. the quick checks\n\nEach change compiles and passes the existing 802-test suite (re-confirmed with tools/confirm_seed.sh); the check of the property it breaks was run with the patch applied to /repo\'s working tree (tools/seedmatrix.py run).\n\n| seed | change | quick check | first signatures | wall s |\n|---|---|---|---|---|\n' + '\n'.join(rows) + '\n')

if __name__ == '__main__':
    if len(sys.argv) >= 3 and sys.argv[1] == 'import':
        do_import(sys.argv[2], remap='--wave2' in sys.argv)
    elif len(sys.argv) >= 2 and sys.argv[1] == 'run':
        run(sys.argv[2:])
    elif len(sys.argv) >= 2 and sys.argv[1] == 'results':
        results()
    else:
        print(__doc__)
