#!/usr/bin/env python3
"""usage: costtable.py <quick sweep log> <thorough sweep log>   rewrites the measured-cost table in DESIGN.md §7"""
import sys, re
def parse(path):
    out = {}
    for ln in open(path):
        m = re.match(r'(C\d\d) (\w+) seed=(\d+) rc=(\d+) (\d+)s .*evaluations=(\d+) distinct_nontrivial=(\d+)', ln)
        if m:
            out[m.group(1)] = dict(rc=int(m.group(4)), s=int(m.group(5)), ev=int(m.group(6)), dn=int(m.group(7)))
    return out
q, t = parse(sys.argv[1]), parse(sys.argv[2])
rows = ['| property | quick: wall s | evaluations | distinct non-trivial | thorough: wall s | evaluations | distinct non-trivial |', '|---|---|---|---|---|---|---|']
sq = st = 0
for p in sorted(set(q) | set(t)):
    a, b = q.get(p, {}), t.get(p, {})
    sq += a.get('s', 0); st += b.get('s', 0)
    rows.append('| %s | %s | %s | %s | %s | %s | %s |' % (p, a.get('s', ''), a.get('ev', ''), a.get('dn', ''), b.get('s', ''), b.get('ev', ''), b.get('dn', '')))
rows.append('| sum | %d | | | %d | | |' % (sq, st))
block = '\n'.join(rows)
d = open('/verif/DESIGN.md').read()
a, b = '<!-- costtable:begin -->', '<!-- costtable:end -->'
d = d[:d.index(a) + len(a)] + '\n' + block + '\n' + d[d.index(b):]
open('/verif/DESIGN.md', 'w').write(d)
print(block)
