#!/bin/bash
# usage: sweep.sh <tier> <seed> [props...]   runs the checks one after the other on the current tree, prints one line each
tier=$1; seed=$2; shift 2
props=${@:-C01 C02 C03 C04 C05 C06 C07 C08 C09 C10 C11 C12 C13 C14 C15 C16 C17 C18 C19 C20}
cd /verif
for p in $props; do
  t0=$(date +%s)
  VERIF_SEED=$seed timeout ${SWEEP_TIMEOUT:-7200} ./check.sh $p $tier > /tmp/sweep-$p-$tier-$seed.out 2>&1
  rc=$?
  echo "$p $tier seed=$seed rc=$rc $(( $(date +%s) - t0 ))s $(grep -c '^VIOLATION' /tmp/sweep-$p-$tier-$seed.out) vio $(grep -c '^INCONCLUSIVE' /tmp/sweep-$p-$tier-$seed.out) inc | $(tail -1 /tmp/sweep-$p-$tier-$seed.out | cut -c1-220)"
done
