#!/bin/bash
# usage: confirm_wave.sh <srcdir> [Cxx/v ...]   confirms seeds whose demo_test.go starts with "// package dir: <dir>" (and optional "// flags: -race")
src=$1; shift
sel="$@"
[ -z "$sel" ] && sel=$(cd $src && ls -d C??/? 2>/dev/null)
for s in $sel; do
  d=$src/$s
  [ -f $d/patch.diff ] || { echo "RESULT $d incomplete"; continue; }
  grep -q "^RESULT $d CONFIRMED" $src/confirm.log 2>/dev/null && continue
  pkg=$(grep -m1 -i '^// *package dir:' $d/demo_test.go | sed 's/^.*: *//; s/[[:space:]]*$//; s#^\./##; s#/$##')
  [ -z "$pkg" ] && pkg=value
  flags=""
  head -8 $d/demo_test.go | grep -qi 'flags:.*-race' && flags="-race"
  /verif/tools/confirm_seed.sh $d "$pkg" $flags 2>&1 | grep RESULT | tee -a $src/confirm.log
done
