#!/bin/bash
# usage: confirm_seed.sh <seed dir with patch.diff demo_test.go> <package dir for the demo, e.g. value> [extra go test flags]
# Confirms in a scratch worktree: patch applies, module builds, existing suite passes with the patch,
# demo fails with the patch and passes without. Prints one RESULT line.
sd=$1; pkg=$2; shift 2; flags="$@"
export GOFLAGS=-mod=mod GOPROXY=off
wt=/tmp/wt/confirm-$$
git -C /repo worktree add -q --detach $wt HEAD || exit 2
cd $wt
res=""
git apply $sd/patch.diff || res="patch-does-not-apply"
if [ -z "$res" ]; then
  go build ./... >/dev/null 2>&1 || res="build-fails"
fi
if [ -z "$res" ]; then
  timeout 600 go test -vet=off -count=1 ./... > /tmp/confirm-suite-$$.log 2>&1 || res="suite-fails-with-patch"
fi
if [ -z "$res" ]; then
  cp $sd/demo_test.go $pkg/zz_seed_demo_test.go
  if timeout 600 go test -vet=off -count=1 $flags -run 'Seed|Demo|C[0-9][0-9]' ./$pkg/ > /tmp/confirm-demo1-$$.log 2>&1; then res="demo-passes-with-patch"; fi
  rm -f $pkg/zz_seed_demo_test.go
fi
if [ -z "$res" ]; then
  git checkout -q -- . ; git clean -fdq
  cp $sd/demo_test.go $pkg/zz_seed_demo_test.go
  timeout 600 go test -vet=off -count=1 $flags -run 'Seed|Demo|C[0-9][0-9]' ./$pkg/ > /tmp/confirm-demo2-$$.log 2>&1 || res="demo-fails-without-patch"
fi
[ -z "$res" ] && res="CONFIRMED"
cd /; git -C /repo worktree remove --force $wt
echo "RESULT $sd $res"
rm -f /tmp/confirm-*-$$.log
