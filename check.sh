#!/bin/bash
# usage: check.sh <property> <quick|thorough>      run a check
#        check.sh replay <property> <seed> <case> [config]  re-execute one case verbosely
#        check.sh setup                           build the driver and warm the build cache
set -u
cd "$(dirname "$0")/harness" || exit 2
export GOFLAGS=-mod=mod GOPROXY=off
unset GOTOOLCHAIN GOSUMDB
mkdir -p bin
case "${1:-}" in
setup)
  cp /repo/go.sum go.sum 2>/dev/null
  go build -o bin/vcheck ./cmd/vcheck || exit 2
  go build -tags verif -o bin/vworker ./cmd/vworker || exit 2
  go build -tags verif -race -o bin/vworker-race ./cmd/vworker || exit 2
  exit 0;;
replay)
  go build -tags verif -o bin/vworker ./cmd/vworker || exit 2
  exec bin/vworker -prop "$2" -seed "$3" -case "$4" -tier "${VERIF_TIER:-quick}" -config "${5:-default}" -v;;
*)
  go build -o bin/vcheck ./cmd/vcheck || exit 2
  exec bin/vcheck -prop "$1" -tier "${2:-quick}";;
esac
