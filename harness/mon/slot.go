// Package mon holds monitors fed by the verif hooks in /repo.
package mon

import (
	"fmt"
	"sync"
	"sync/atomic"

	"github.com/hneemann/parser2/funcGen"
)

// Slot is M-slot: it observes every executed let binding through the
// VerifLetBind hook and records bindings whose run-time slot differs from the
// index the compiled code reads the name from.
type Slot struct {
	Events   atomic.Int64
	mu       sync.Mutex
	mismatch []string
}

var TheSlot Slot

// InstallSlot installs the hook (idempotent).
func InstallSlot() {
	funcGen.VerifLetBind = func(name string, compileIdx, runtimeSlot int) {
		TheSlot.Events.Add(1)
		if compileIdx != runtimeSlot {
			TheSlot.mu.Lock()
			if len(TheSlot.mismatch) < 8 {
				TheSlot.mismatch = append(TheSlot.mismatch, fmt.Sprintf("let %s: compiled to read slot %d, value pushed to slot %d", name, compileIdx, runtimeSlot))
			}
			TheSlot.mu.Unlock()
		}
	}
}

// Take returns and clears the recorded mismatches.
func (s *Slot) Take() []string {
	s.mu.Lock()
	defer s.mu.Unlock()
	m := s.mismatch
	s.mismatch = nil
	return m
}
