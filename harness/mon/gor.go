package mon

import (
	"regexp"
	"runtime"
	"sort"
	"strings"
	"time"
)

// M-gor: goroutine-profile differ.

type Goroutine struct {
	ID      string
	State   string
	Top     string // topmost frame function
	Creator string
	Ours    bool // a parser2/iterator frame or creator
}

var gorHead = regexp.MustCompile(`^goroutine (\d+) \[([^\]]+)\]:`)

// Snapshot parses runtime.Stack(all).
func Snapshot() map[string]Goroutine {
	buf := make([]byte, 1<<20)
	for {
		n := runtime.Stack(buf, true)
		if n < len(buf) {
			buf = buf[:n]
			break
		}
		buf = make([]byte, 2*len(buf))
	}
	out := map[string]Goroutine{}
	for _, blk := range strings.Split(string(buf), "\n\n") {
		lines := strings.Split(blk, "\n")
		m := gorHead.FindStringSubmatch(lines[0])
		if m == nil {
			continue
		}
		g := Goroutine{ID: m[1], State: normState(m[2])}
		for i := 1; i < len(lines); i++ {
			l := lines[i]
			if strings.HasPrefix(l, "\t") {
				continue
			}
			if strings.HasPrefix(l, "created by ") {
				c := strings.TrimPrefix(l, "created by ")
				if j := strings.Index(c, " in goroutine"); j >= 0 {
					c = c[:j]
				}
				g.Creator = shortFunc(c)
				if isOurs(c) {
					g.Ours = true
				}
				continue
			}
			fn := l
			if j := strings.LastIndex(fn, "("); j > 0 {
				fn = fn[:j]
			}
			if g.Top == "" {
				g.Top = shortFunc(fn)
			}
			if isOurs(fn) {
				g.Ours = true
			}
		}
		out[g.ID] = g
	}
	return out
}

func isOurs(fn string) bool {
	return strings.Contains(fn, "github.com/hneemann/parser2") || strings.Contains(fn, "github.com/hneemann/iterator")
}

var genericRe = regexp.MustCompile(`\[[^\]]*\]`)
var funcNumRe = regexp.MustCompile(`\.func\d+(\.\d+)*|\.\d+`)

func shortFunc(s string) string {
	s = strings.TrimSpace(s)
	// strip generic instantiation shapes (may contain nested brackets)
	for {
		n := genericRe.ReplaceAllString(s, "")
		if n == s {
			break
		}
		s = n
	}
	s = strings.TrimPrefix(s, "github.com/hneemann/")
	s = funcNumRe.ReplaceAllString(s, ".func")
	return s
}

func normState(s string) string {
	if i := strings.Index(s, ","); i >= 0 {
		s = s[:i]
	}
	return s
}

// Leaks waits until two consecutive snapshots agree (or the window is over) and returns the goroutines of
// ours that were not in the baseline and are present - with the same id - in two snapshots taken apart.
func Leaks(baseline map[string]Goroutine, window time.Duration) (map[string]int, int) {
	deadline := time.Now().Add(window)
	var prev map[string]Goroutine
	for {
		cur := Snapshot()
		alive := map[string]Goroutine{}
		for id, g := range cur {
			if _, ok := baseline[id]; !ok && g.Ours {
				alive[id] = g
			}
		}
		if len(alive) == 0 {
			return nil, 0
		}
		if prev != nil {
			same := len(prev) == len(alive)
			for id := range alive {
				if _, ok := prev[id]; !ok {
					same = false
				}
			}
			if same || time.Now().After(deadline) {
				// present in two snapshots: a leak, keyed by (creator, blocking frame, state)
				sigs := map[string]int{}
				n := 0
				for id, g := range alive {
					if _, ok := prev[id]; ok {
						sigs["leak:"+g.Creator+"@"+g.Top+"["+g.State+"]"]++
						n++
					}
				}
				if n > 0 || time.Now().After(deadline) {
					return sigs, n
				}
			}
		}
		prev = alive
		if time.Now().After(deadline) {
			time.Sleep(200 * time.Millisecond)
		} else {
			time.Sleep(150 * time.Millisecond)
		}
	}
}

// SortedKeys helper.
func SortedKeys(m map[string]int) []string {
	var out []string
	for k := range m {
		out = append(out, k)
	}
	sort.Strings(out)
	return out
}
