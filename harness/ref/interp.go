package ref

import (
	"math"
	"strings"
)

// HostFunc is a static function registered by the harness (tick, delay, ...).
type HostFunc func(in *Interp, args []Value) (Value, *Err)

type Interp struct {
	Host map[string]HostFunc
	// Consts are harness-registered constants.
	Consts map[string]Value
	depth  int
	fuel   int
	// shadowing is set while a read-ahead probe runs
	shadowing bool
	// ReadAheadErr is set when a short-circuit consumer's one-element read-ahead
	// (which the real implementation may or may not perform) would raise an error.
	ReadAheadErr bool
	// NoShadow disables read-ahead probing (used when host functions count calls).
	NoShadow bool
	// Trace of impure host calls, for C02 third opinion.
	Calls map[string]int
	// Builtins counts successful calls of built-ins ("list.map", "global.abs"), for coverage evidence.
	Builtins map[string]int
}

func NewInterp() *Interp {
	return &Interp{Host: map[string]HostFunc{}, Consts: map[string]Value{}, fuel: 400_000, Calls: map[string]int{}}
}

// Reset prepares the interpreter for another evaluation.
func (in *Interp) Reset() {
	in.depth = 0
	in.fuel = 400_000
	in.ReadAheadErr = false
	in.Calls = map[string]int{}
}

func (in *Interp) tick() *Err {
	in.fuel--
	if in.fuel < 0 {
		e := unspec("evaluation budget of the reference model exhausted")
		e.Budget = true
		return e
	}
	return nil
}

// Run evaluates a program with the given arguments.
func (in *Interp) Run(prog *Node, argNames []string, args []Value) (Value, *Err) {
	in.Reset()
	var env *Env
	for i, n := range argNames {
		env = env.Bind(n, args[i])
	}
	v, e := in.Eval(prog, env)
	if e != nil {
		return nil, e
	}
	return v, nil
}

const maxDepth = 400

func (in *Interp) Call(f *Closure, args []Value) (Value, *Err) {
	if len(args) != f.Arity {
		return nil, errf("wrong number of arguments: %d instead of %d", len(args), f.Arity)
	}
	if e := in.tick(); e != nil {
		return nil, e
	}
	in.depth++
	defer func() { in.depth-- }()
	if in.depth > maxDepth {
		return nil, unspec("recursion deeper than the reference model follows")
	}
	if f.Native != nil {
		return f.Native(in, args)
	}
	env := f.Env
	for i, p := range f.Params {
		env = env.Bind(p, args[i])
	}
	return in.Eval(f.Body, env)
}

func (in *Interp) evalArgs(ns []*Node, env *Env) ([]Value, *Err) {
	out := make([]Value, len(ns))
	for i, a := range ns {
		v, e := in.Eval(a, env)
		if e != nil {
			return nil, e
		}
		out[i] = v
	}
	return out, nil
}

func (in *Interp) Eval(n *Node, env *Env) (Value, *Err) {
	if e := in.tick(); e != nil {
		return nil, e
	}
	switch n.K {
	case KRaw:
		return in.Eval(n.X, env)
	case KInt:
		return n.I, nil
	case KFloat:
		return n.F, nil
	case KStr:
		return n.S, nil
	case KBool:
		return n.B, nil
	case KIdent:
		if v, ok := env.Lookup(n.Name); ok {
			return v, nil
		}
		switch n.Name {
		case "pi":
			return math.Pi, nil
		case "true":
			return true, nil
		case "false":
			return false, nil
		}
		if v, ok := in.Consts[n.Name]; ok {
			return v, nil
		}
		return nil, errf("identifier %s not found", n.Name)
	case KLet:
		v, e := in.Eval(n.X, env)
		if e != nil {
			return nil, e
		}
		return in.Eval(n.Y, env.Bind(n.Name, v))
	case KFunc:
		c := &Closure{Params: n.Params, Body: n.X, Arity: len(n.Params)}
		c.Env = env.Bind(n.Name, c) // the function's own name is visible in its body
		return in.Eval(n.Y, env.Bind(n.Name, c))
	case KClosure:
		return &Closure{Params: n.Params, Body: n.X, Env: env, Arity: len(n.Params)}, nil
	case KIf:
		c, e := in.Eval(n.X, env)
		if e != nil {
			return nil, e
		}
		b, ok := c.(bool)
		if !ok {
			return nil, errf("if condition is not a bool")
		}
		if b {
			return in.Eval(n.Y, env)
		}
		return in.Eval(n.Z, env)
	case KSwitch:
		v, e := in.Eval(n.X, env)
		if e != nil {
			return nil, e
		}
		for i := range n.CaseC {
			c, e := in.Eval(n.CaseC[i], env)
			if e != nil {
				return nil, e
			}
			eq, e := in.Equal(v, c)
			if e != nil {
				return nil, e
			}
			if eq {
				return in.Eval(n.CaseR[i], env)
			}
		}
		return in.Eval(n.Z, env)
	case KTry:
		v, e := in.Eval(n.X, env)
		if e == nil {
			return v, nil
		}
		if e.Unspec {
			return nil, e
		}
		cv, ce := in.Eval(n.Y, env)
		if ce != nil {
			return nil, ce
		}
		if c, ok := cv.(*Closure); ok && c.Arity == 1 {
			return in.Call(c, []Value{Opaque{Contains: e.Thrown}})
		}
		return cv, nil
	case KUnary:
		v, e := in.Eval(n.X, env)
		if e != nil {
			return nil, e
		}
		if _, ok := v.(Opaque); ok {
			return nil, unspec("operation on error text")
		}
		switch n.Op {
		case "-":
			switch t := v.(type) {
			case int64:
				return -t, nil
			case float64:
				return -t, nil
			}
			return nil, errf("unary - not defined on %s", TypeName(v))
		case "!":
			if b, ok := v.(bool); ok {
				return !b, nil
			}
			return nil, errf("unary ! not defined on %s", TypeName(v))
		}
		return nil, errf("unknown unary %s", n.Op)
	case KBinary:
		return in.evalBinary(n, env)
	case KList:
		items, e := in.evalArgs(n.Args, env)
		if e != nil {
			return nil, e
		}
		return NewList(items...), nil
	case KMap:
		m := NewMap()
		for i, k := range n.Keys {
			v, e := in.Eval(n.Args[i], env)
			if e != nil {
				return nil, e
			}
			m.Keys = append(m.Keys, k)
			m.Vals = append(m.Vals, v)
		}
		return m, nil
	case KIndex:
		// the text order is list, then index; nothing observable depends on it (errors are not distinguished)
		lv, e := in.Eval(n.X, env)
		if e != nil {
			return nil, e
		}
		iv, e := in.Eval(n.Y, env)
		if e != nil {
			return nil, e
		}
		l, ok := lv.(*List)
		if !ok {
			return nil, errf("not a list: %s", TypeName(lv))
		}
		i, ok := iv.(int64)
		if !ok {
			return nil, errf("not an int: %s", TypeName(iv))
		}
		if i < 0 {
			return nil, errf("negative list index")
		}
		if l.Unordered || len(l.Ties) > 0 {
			return nil, unspec("index into a list whose order is unspecified")
		}
		// index needs elements 0..i; whether the rest is evaluated is not specified
		p := l.Iter()
		var res Value
		for k := int64(0); ; k++ {
			v, e, ok := p()
			if e != nil {
				if k <= i {
					return nil, e
				}
				return nil, unspec("error in an element behind the indexed one")
			}
			if !ok {
				if k <= i {
					return nil, errf("index out of bounds")
				}
				return res, nil
			}
			if k == i {
				res = v
			}
			if e := in.tick(); e != nil {
				return nil, e
			}
		}
	case KMember:
		mv, e := in.Eval(n.X, env)
		if e != nil {
			return nil, e
		}
		m, ok := mv.(*Map)
		if !ok {
			return nil, errf("not a map: %s", TypeName(mv))
		}
		if v, ok := m.Get(n.Name); ok {
			return v, nil
		}
		return nil, errf("key %s not found", n.Name)
	case KMethod:
		rv, e := in.Eval(n.X, env)
		if e != nil {
			return nil, e
		}
		if m, ok := rv.(*Map); ok {
			if fv, ok := m.Get(n.Name); ok {
				if c, ok := fv.(*Closure); ok {
					if c.Arity != len(n.Args) {
						return nil, errf("wrong number of arguments")
					}
					args, e := in.evalArgs(n.Args, env)
					if e != nil {
						return nil, e
					}
					return in.Call(c, args)
				}
			}
		}
		// Which of several errors is reported is left open by the documentation; the
		// library looks the method up before it evaluates the arguments, the model does the same
		// so that the text passed through throw can be compared.
		if ex, ok := in.MethodCheck(rv, n.Name, len(n.Args)); !ex {
			return nil, errf("method %s not found on %s", n.Name, TypeName(rv))
		} else if !ok {
			return nil, errf("wrong number of arguments at call of method %s", n.Name)
		}
		args, e := in.evalArgs(n.Args, env)
		if e != nil {
			return nil, e
		}
		return in.CallMethod(rv, n.Name, args)
	case KCall:
		fv, e := in.Eval(n.X, env)
		if e != nil {
			return nil, e
		}
		c, ok := fv.(*Closure)
		if !ok {
			return nil, errf("not a function: %s", TypeName(fv))
		}
		if c.Arity != len(n.Args) {
			return nil, errf("wrong number of arguments")
		}
		args, e := in.evalArgs(n.Args, env)
		if e != nil {
			return nil, e
		}
		return in.Call(c, args)
	case KStatic:
		// the nearest enclosing binding wins: a local named like a static function hides it
		if fv, ok := env.Lookup(n.Name); ok {
			c, ok := fv.(*Closure)
			if !ok {
				return nil, errf("not a function: %s", TypeName(fv))
			}
			if c.Arity != len(n.Args) {
				return nil, errf("wrong number of arguments")
			}
			args, e := in.evalArgs(n.Args, env)
			if e != nil {
				return nil, e
			}
			return in.Call(c, args)
		}
		if a, ok := staticArity[n.Name]; ok && a != len(n.Args) {
			// checked when the function is generated, i.e. before anything is evaluated
			return nil, errf("wrong number of arguments at call of %s", n.Name)
		}
		args, e := in.evalArgs(n.Args, env)
		if e != nil {
			return nil, e
		}
		if h, ok := in.Host[n.Name]; ok {
			return h(in, args)
		}
		return in.CallStatic(n.Name, args)
	}
	return nil, errf("unknown node")
}

// each pulls the items of l one by one and calls f before the next item is pulled.
func (in *Interp) each(l *List, f func(it Value) *Err) *Err {
	pull := l.Iter()
	for {
		it, pe, ok := pull()
		if pe != nil {
			return pe
		}
		if !ok {
			return nil
		}
		if e := in.tick(); e != nil {
			return e
		}
		if e := f(it); e != nil {
			return e
		}
	}
}

func isOpaque(v Value) bool { _, ok := v.(Opaque); return ok }

func (in *Interp) evalBinary(n *Node, env *Env) (Value, *Err) {
	a, e := in.Eval(n.X, env)
	if e != nil {
		return nil, e
	}
	if n.Op == "&" || n.Op == "|" {
		if ab, ok := a.(bool); ok {
			if n.Op == "&" && !ab {
				return false, nil
			}
			if n.Op == "|" && ab {
				return true, nil
			}
		}
	}
	b, e := in.Eval(n.Y, env)
	if e != nil {
		return nil, e
	}
	return in.BinOp(n.Op, a, b)
}

// BinOp applies a binary operator to two values.
func (in *Interp) BinOp(op string, a, b Value) (Value, *Err) {
	if isOpaque(a) || isOpaque(b) {
		return nil, unspec("operation on error text")
	}
	switch op {
	case "&", "|":
		if x, ok := a.(bool); ok {
			if y, ok := b.(bool); ok {
				if op == "&" {
					return x && y, nil
				}
				return x || y, nil
			}
		}
		if x, ok := a.(int64); ok {
			if y, ok := b.(int64); ok {
				if op == "&" {
					return x & y, nil
				}
				return x | y, nil
			}
		}
		return nil, errf("%s not defined on %s, %s", op, TypeName(a), TypeName(b))
	case "=":
		eq, e := in.Equal(a, b)
		if e != nil {
			return nil, e
		}
		return eq, nil
	case "!=":
		eq, e := in.Equal(a, b)
		if e != nil {
			return nil, e
		}
		return !eq, nil
	case "<":
		return in.lessV(a, b)
	case ">":
		return in.lessV(b, a)
	case "<=":
		l, e := in.Less(a, b)
		if e != nil {
			return nil, e
		}
		if l {
			return true, nil
		}
		eq, e := in.Equal(a, b)
		if e != nil {
			return nil, e
		}
		return eq, nil
	case ">=":
		l, e := in.Less(b, a)
		if e != nil {
			return nil, e
		}
		if l {
			return true, nil
		}
		eq, e := in.Equal(a, b)
		if e != nil {
			return nil, e
		}
		return eq, nil
	case "~":
		return in.contains(a, b)
	case "+":
		if s, ok := a.(string); ok {
			bs, e := in.ToString(b)
			if e != nil {
				return nil, e
			}
			if len(s)+len(bs) > 1<<22 {
				return nil, &Err{Msg: "unspecified: string too large for the reference model", Unspec: true, Budget: true}
			}
			return s + bs, nil
		}
		if la, ok := a.(*List); ok {
			if lb, ok := b.(*List); ok {
				return in.concat(la, lb), nil
			}
		}
		if ma, ok := a.(*Map); ok {
			if mb, ok := b.(*Map); ok {
				return in.mergeMaps(ma, mb)
			}
		}
		return in.arith(op, a, b)
	case "-", "*":
		return in.arith(op, a, b)
	case "/":
		x, ok1 := toFloat(a)
		y, ok2 := toFloat(b)
		if ok1 && ok2 {
			return x / y, nil
		}
		return nil, errf("/ not defined on %s, %s", TypeName(a), TypeName(b))
	case "%", "<<", ">>":
		x, ok1 := a.(int64)
		y, ok2 := b.(int64)
		if !ok1 || !ok2 {
			return nil, errf("%s not defined on %s, %s", op, TypeName(a), TypeName(b))
		}
		switch op {
		case "%":
			if y == 0 {
				return nil, errf("modulo by zero")
			}
			return x % y, nil
		case "<<":
			if y < 0 {
				return nil, errf("negative shift")
			}
			return x << uint64(y), nil
		default:
			if y < 0 {
				return nil, errf("negative shift")
			}
			return x >> uint64(y), nil
		}
	case "^":
		switch x := a.(type) {
		case int64:
			switch y := b.(type) {
			case int64:
				if y > 0 && y < 10 {
					r := x
					for j := int64(1); j < y; j++ {
						r *= x
					}
					return r, nil
				}
				f := math.Pow(float64(x), float64(y))
				if math.Abs(f) > 9e15 || math.IsNaN(f) {
					return nil, unspec("integer power out of the exactly representable range")
				}
				return floatToIntV(f)
			case float64:
				return math.Pow(float64(x), y), nil
			}
		case float64:
			switch y := b.(type) {
			case int64:
				return math.Pow(x, float64(y)), nil
			case float64:
				return math.Pow(x, y), nil
			}
		}
		return nil, errf("^ not defined on %s, %s", TypeName(a), TypeName(b))
	}
	return nil, errf("unknown operator %s", op)
}

func floatToIntV(f float64) (Value, *Err) {
	i, e := floatToInt(f)
	if e != nil {
		return nil, e
	}
	return i, nil
}

func (in *Interp) arith(op string, a, b Value) (Value, *Err) {
	switch x := a.(type) {
	case int64:
		switch y := b.(type) {
		case int64:
			switch op {
			case "+":
				return x + y, nil
			case "-":
				return x - y, nil
			default:
				return x * y, nil
			}
		case float64:
			return farith(op, float64(x), y), nil
		}
	case float64:
		switch y := b.(type) {
		case int64:
			return farith(op, x, float64(y)), nil
		case float64:
			return farith(op, x, y), nil
		}
	}
	return nil, errf("%s not defined on %s, %s", op, TypeName(a), TypeName(b))
}

func farith(op string, x, y float64) float64 {
	switch op {
	case "+":
		return x + y
	case "-":
		return x - y
	default:
		return x * y
	}
}

func (in *Interp) lessV(a, b Value) (Value, *Err) {
	l, e := in.Less(a, b)
	if e != nil {
		return nil, e
	}
	return l, nil
}

// Less: numbers numerically, strings bytewise, everything else is an error.
func (in *Interp) Less(a, b Value) (bool, *Err) {
	if isOpaque(a) || isOpaque(b) {
		return false, unspec("comparison of error text")
	}
	switch x := a.(type) {
	case int64:
		switch y := b.(type) {
		case int64:
			return x < y, nil
		case float64:
			return float64(x) < y, nil
		}
	case float64:
		switch y := b.(type) {
		case int64:
			return x < float64(y), nil
		case float64:
			return x < y, nil
		}
	case string:
		if y, ok := b.(string); ok {
			return x < y, nil
		}
	}
	return false, errf("< not defined on %s, %s", TypeName(a), TypeName(b))
}

// Equal: same-kind scalars, int~float by numeric value, lists element-wise, maps key-wise; otherwise error.
func (in *Interp) Equal(a, b Value) (bool, *Err) {
	if e := in.tick(); e != nil {
		return false, e
	}
	if isOpaque(a) || isOpaque(b) {
		return false, unspec("comparison of error text")
	}
	switch x := a.(type) {
	case bool:
		if y, ok := b.(bool); ok {
			return x == y, nil
		}
	case int64:
		switch y := b.(type) {
		case int64:
			return x == y, nil
		case float64:
			return float64(x) == y, nil
		}
	case float64:
		switch y := b.(type) {
		case int64:
			return x == float64(y), nil
		case float64:
			return x == y, nil
		}
	case string:
		if y, ok := b.(string); ok {
			return x == y, nil
		}
	case *List:
		if y, ok := b.(*List); ok {
			xs, e := in.Force(x)
			if e != nil {
				return false, e
			}
			ys, e := in.Force(y)
			if e != nil {
				return false, e
			}
			if len(xs) != len(ys) {
				return false, nil
			}
			if (x.Unordered || y.Unordered || len(x.Ties) > 0 || len(y.Ties) > 0) && len(xs) > 1 {
				return false, unspec("equality of lists whose order is unspecified")
			}
			for i := range xs {
				eq, e := in.Equal(xs[i], ys[i])
				if e != nil {
					return false, e
				}
				if !eq {
					return false, nil
				}
			}
			return true, nil
		}
	case *Map:
		if y, ok := b.(*Map); ok {
			if len(x.Keys) != len(y.Keys) {
				return false, nil
			}
			sawFalse, sawErr := false, (*Err)(nil)
			for i, k := range x.Keys {
				yv, ok := y.Get(k)
				if !ok {
					if !x.Unordered {
						return false, nil
					}
					sawFalse = true
					continue
				}
				eq, e := in.Equal(yv, x.Vals[i])
				if e != nil {
					if e.Unspec || !x.Unordered {
						return false, e
					}
					sawErr = e
					continue
				}
				if !eq {
					if !x.Unordered {
						return false, nil
					}
					sawFalse = true
				}
			}
			if sawFalse && sawErr != nil {
				return false, unspec("map equality meets an incomparable and an unequal entry in unspecified order")
			}
			if sawErr != nil {
				return false, sawErr
			}
			return !sawFalse, nil
		}
	}
	return false, errf("= not defined on %s, %s", TypeName(a), TypeName(b))
}

// contains models '~'. Lists on the right are searched lazily in order (C08): the search stops at the
// deciding element; incomparable pairs fall back to the order-independent judgement of containsEager.
func (in *Interp) contains(a, b Value) (Value, *Err) {
	if y, ok := b.(*List); ok && !orderOpen(y) {
		var lookFor []Value
		if x, isList := a.(*List); isList {
			xs, e := in.Force(x)
			if e != nil {
				return nil, e
			}
			lookFor = xs
		} else {
			lookFor = []Value{a}
		}
		if _, isList := a.(*List); isList && len(lookFor) == 0 {
			// nothing to look for: whether the other list is touched at all (its first item may fail) is open
			in.probe(y.Iter())
			return true, nil
		}
		found := make([]bool, len(lookFor))
		nFound := 0
		p := y.Iter()
		for {
			v, e, ok := p()
			if e != nil {
				return nil, e
			}
			if !ok {
				return false, nil
			}
			for i, lf := range lookFor {
				if found[i] {
					continue
				}
				eq, e := in.Equal(lf, v)
				if e != nil {
					if e.Unspec {
						return nil, e
					}
					return in.containsEager(a, b)
				}
				if eq {
					found[i] = true
					nFound++
					break
				}
			}
			if nFound == len(lookFor) {
				in.probe(p)
				return true, nil
			}
			if e := in.tick(); e != nil {
				return nil, e
			}
		}
	}
	return in.containsEager(a, b)
}

func (in *Interp) containsEager(a, b Value) (Value, *Err) {
	switch y := b.(type) {
	case *List:
		ys, e := in.forceShort(y)
		if e != nil {
			return nil, e
		}
		if x, ok := a.(*List); ok {
			xs, e := in.Force(x)
			if e != nil {
				return nil, e
			}
			// multiset inclusion
			used := make([]bool, len(ys))
			anyErr := false
			all := true
			for _, xv := range xs {
				found := false
				for j, yv := range ys {
					if used[j] {
						continue
					}
					eq, e := in.Equal(xv, yv)
					if e != nil {
						if e.Unspec {
							return nil, e
						}
						anyErr = true
						continue
					}
					if eq {
						used[j] = true
						found = true
						break
					}
				}
				if !found {
					all = false
				}
			}
			if anyErr {
				return nil, unspec("membership among partially incomparable values")
			}
			return all, nil
		}
		nErr, found := 0, false
		for _, yv := range ys {
			eq, e := in.Equal(a, yv)
			if e != nil {
				if e.Unspec {
					return nil, e
				}
				nErr++
				continue
			}
			if eq {
				found = true
			}
		}
		if nErr > 0 {
			if nErr == len(ys) {
				return nil, errf("~ on incomparable values")
			}
			return nil, unspec("membership among partially incomparable values")
		}
		return found, nil
	case *Map:
		if k, ok := a.(string); ok {
			_, has := y.Get(k)
			return has, nil
		}
	case string:
		if x, ok := a.(string); ok {
			return strings.Contains(y, x), nil
		}
	}
	return nil, errf("~ not defined on %s, %s", TypeName(a), TypeName(b))
}

// forceShort forces a list for a consumer that may stop early: an error is
// certain only if the consumer must pass it; used by '~' where the library may
// stop at the first hit. Implemented as full force with the unspecified case
// detected by the caller through errors in elements behind a hit.
func (in *Interp) forceShort(l *List) ([]Value, *Err) {
	var out []Value
	p := l.Iter()
	for {
		v, e, ok := p()
		if e != nil {
			if len(out) == 0 {
				return nil, e
			}
			return nil, unspec("error in a list element that a short-circuit membership test may or may not reach")
		}
		if !ok {
			return out, nil
		}
		out = append(out, v)
		if e := in.tick(); e != nil {
			return nil, e
		}
	}
}

func (in *Interp) concat(a, b *List) *List {
	return &List{Unordered: false, Iter: func() Pull {
		pa := a.Iter()
		var pb Pull
		return func() (Value, *Err, bool) {
			if pa != nil {
				v, e, ok := pa()
				if e != nil || ok {
					return v, e, ok
				}
				pa = nil
				pb = b.Iter()
			}
			return pb()
		}
	}, Ties: concatTies(a, b)}
}

func concatTies(a, b *List) [][2]int {
	if a.Unordered || b.Unordered || len(a.Ties) > 0 || len(b.Ties) > 0 {
		// order partly unspecified: mark the whole list as one tie group of unknown size
		return [][2]int{{0, 1 << 30}}
	}
	return nil
}

func (in *Interp) mergeMaps(a, b *Map) (Value, *Err) {
	for _, k := range b.Keys {
		if _, ok := a.Get(k); ok {
			return nil, errf("key %s present in both maps", k)
		}
	}
	m := &Map{Unordered: (a.Unordered && len(a.Keys) > 1) || (b.Unordered && len(b.Keys) > 1)}
	m.Keys = append(append([]string{}, a.Keys...), b.Keys...)
	m.Vals = append(append([]Value{}, a.Vals...), b.Vals...)
	return m, nil
}

// DeepForce evaluates lists inside a result completely (an element error becomes the outcome).
func (in *Interp) DeepForce(v Value) *Err { return in.deepForce(v) }
