package ref

import (
	"math"
	"strconv"
	"strings"
	"unicode/utf8"
)

// CallMethod dispatches a built-in method by receiver type.
func (in *Interp) CallMethod(recv Value, name string, args []Value) (Value, *Err) {
	v, e := in.callMethod(recv, name, args)
	if e == nil && in.Builtins != nil {
		in.Builtins[TypeName(recv)+"."+name]++
	}
	return v, e
}

func (in *Interp) callMethod(recv Value, name string, args []Value) (Value, *Err) {
	for _, a := range args {
		if isOpaque(a) {
			return nil, unspec("error text passed to a built-in")
		}
	}
	switch r := recv.(type) {
	case *List:
		return in.listMethod(r, name, args)
	case *Map:
		return in.mapMethod(r, name, args)
	case string:
		return in.stringMethod(r, name, args)
	case int64, float64, bool:
		if name == "string" {
			if e := needArgs(name, args, 0); e != nil {
				return nil, e
			}
			s, e := in.ToString(recv)
			if e != nil {
				return nil, e
			}
			return s, nil
		}
		return nil, errf("method %s not found on %s", name, TypeName(recv))
	case *Closure:
		switch name {
		case "args":
			if e := needArgs(name, args, 0); e != nil {
				return nil, e
			}
			return int64(r.Arity), nil
		case "invoke":
			if e := needArgs(name, args, 1); e != nil {
				return nil, e
			}
			l, ok := args[0].(*List)
			if !ok {
				return nil, errf("invoke needs a list")
			}
			items, e := in.Force(l)
			if e != nil {
				return nil, e
			}
			if orderOpen(l) && len(items) > 1 {
				return nil, unspec("invoke with a list whose order is unspecified")
			}
			return in.Call(r, items)
		}
		return nil, errf("method %s not found on closure", name)
	case Opaque:
		return nil, unspec("method on error text")
	}
	return nil, errf("no methods on %s", TypeName(recv))
}

func (in *Interp) mapMethod(m *Map, name string, args []Value) (Value, *Err) {
	arity := mapArity
	n, ok := arity[name]
	if !ok {
		return nil, errf("method %s not found on map", name)
	}
	if n >= 0 {
		if e := needArgs(name, args, n); e != nil {
			return nil, e
		}
	}
	switch name {
	case "eval":
		return &Map{Keys: m.Keys, Vals: m.Vals, Unordered: true}, nil
	case "accept", "map":
		f, e := asFunc(name, args[0], 2)
		if e != nil {
			return nil, e
		}
		out := &Map{Unordered: m.Unordered}
		nErr := 0
		var firstErr *Err
		for i, k := range m.Keys {
			v, e := in.Call(f, []Value{k, m.Vals[i]})
			if e != nil {
				if e.Unspec {
					return nil, e
				}
				nErr++
				if firstErr == nil {
					firstErr = e
				}
				continue
			}
			if name == "map" {
				out.Keys = append(out.Keys, k)
				out.Vals = append(out.Vals, v)
			} else {
				b, ok := v.(bool)
				if !ok {
					if isOpaque(v) {
						return nil, unspec("error text as bool")
					}
					nErr++
					if firstErr == nil {
						firstErr = errf("function in accept does not return a bool")
					}
					continue
				}
				if b {
					out.Keys = append(out.Keys, k)
					out.Vals = append(out.Vals, m.Vals[i])
				}
			}
		}
		if firstErr != nil {
			return nil, firstErr
		}
		return out, nil
	case "replaceMap":
		f, e := asFunc(name, args[0], 1)
		if e != nil {
			return nil, e
		}
		return in.Call(f, []Value{m})
	case "list":
		items := make([]Value, len(m.Keys))
		for i, k := range m.Keys {
			items[i] = MapOf("key", k, "value", m.Vals[i])
		}
		l := NewList(items...)
		l.Unordered = m.Unordered
		return l, nil
	case "size":
		return int64(len(m.Keys)), nil
	case "string":
		s, e := in.ToString(m)
		if e != nil {
			return nil, e
		}
		return s, nil
	case "isAvail":
		res := true
		for _, a := range args {
			k, ok := a.(string)
			if !ok {
				// a non-string argument is misuse; whether it is noticed behind a missing key is open
				if !res {
					return nil, unspec("isAvail with a non-string behind a missing key")
				}
				return nil, errf("isAvail requires strings")
			}
			if _, ok := m.Get(k); !ok {
				res = false
			}
		}
		return res, nil
	case "get":
		k, ok := args[0].(string)
		if !ok {
			return nil, errf("get requires a string")
		}
		if v, ok := m.Get(k); ok {
			return v, nil
		}
		return nil, errf("key not found")
	case "put":
		k, ok := args[0].(string)
		if !ok {
			return nil, errf("put requires a string key")
		}
		if _, ok := m.Get(k); ok {
			return nil, errf("key already present")
		}
		out := &Map{Unordered: m.Unordered && len(m.Keys) > 1}
		out.Keys = append([]string{k}, m.Keys...)
		out.Vals = append([]Value{args[1]}, m.Vals...)
		return out, nil
	case "replace":
		f, e := asFunc(name, args[0], 1)
		if e != nil {
			return nil, e
		}
		rv, e := in.Call(f, []Value{m})
		if e != nil {
			return nil, e
		}
		rep, ok := rv.(*Map)
		if !ok {
			if isOpaque(rv) {
				return nil, unspec("error text as map")
			}
			return nil, errf("the function passed to replace must return a map")
		}
		out := &Map{Unordered: m.Unordered}
		for i, k := range m.Keys {
			out.Keys = append(out.Keys, k)
			if nv, ok := rep.Get(k); ok {
				out.Vals = append(out.Vals, nv)
			} else {
				out.Vals = append(out.Vals, m.Vals[i])
			}
		}
		return out, nil
	case "combine":
		other, ok := args[0].(*Map)
		if !ok {
			return nil, errf("combine requires a map")
		}
		f, e := asFunc(name, args[1], 2)
		if e != nil {
			return nil, e
		}
		out := &Map{Unordered: m.Unordered}
		for i, k := range m.Keys {
			ov, ok := other.Get(k)
			if !ok {
				return nil, unspec("combine with a key that is missing in the second map (description: keys in both maps; implementation: error)")
			}
			v, e := in.Call(f, []Value{m.Vals[i], ov})
			if e != nil {
				if m.Unordered && !e.Unspec && len(m.Keys) > 1 {
					return nil, unspec("failing callback over a map whose order is unspecified")
				}
				return nil, e
			}
			out.Keys = append(out.Keys, k)
			out.Vals = append(out.Vals, v)
		}
		return out, nil
	}
	return nil, errf("method %s not found on map", name)
}

func (in *Interp) stringMethod(s string, name string, args []Value) (Value, *Err) {
	arity := stringArity
	n, ok := arity[name]
	if !ok {
		return nil, errf("method %s not found on string", name)
	}
	if e := needArgs(name, args, n); e != nil {
		return nil, e
	}
	strArg := func(i int) (string, *Err) {
		a, ok := args[i].(string)
		if !ok {
			return "", errf("%s needs a string as argument", name)
		}
		return a, nil
	}
	switch name {
	case "len":
		return int64(len(s)), nil
	case "string":
		return s, nil
	case "trim":
		return strings.TrimSpace(s), nil
	case "toLower":
		return strings.ToLower(s), nil
	case "toUpper":
		return strings.ToUpper(s), nil
	case "contains":
		a, e := strArg(0)
		if e != nil {
			return nil, e
		}
		return strings.Contains(s, a), nil
	case "indexOf":
		a, e := strArg(0)
		if e != nil {
			return nil, e
		}
		return int64(strings.Index(s, a)), nil
	case "split":
		a, e := strArg(0)
		if e != nil {
			return nil, e
		}
		if a == "" {
			return nil, unspec("split with an empty separator")
		}
		parts := strings.Split(s, a)
		items := make([]Value, len(parts))
		for i, p := range parts {
			items[i] = p
		}
		return NewList(items...), nil
	case "cut":
		p, ok1 := args[0].(int64)
		n, ok2 := args[1].(int64)
		if !ok1 || !ok2 {
			return nil, errf("cut requires integers")
		}
		if n == 0 {
			return nil, unspec("cut with length 0")
		}
		if p < 0 {
			return nil, unspec("cut with negative position")
		}
		if !utf8.ValidString(s) {
			return nil, unspec("cut on invalid UTF-8")
		}
		r := []rune(s)
		if p >= int64(len(r)) {
			return "", nil
		}
		r = r[p:]
		if n > 0 && n < int64(len(r)) {
			r = r[:n]
		}
		return string(r), nil
	case "behind":
		a, e := strArg(0)
		if e != nil {
			return nil, e
		}
		for _, line := range strings.Split(s, "\n") {
			if p := strings.Index(line, a); p >= 0 {
				return strings.TrimSpace(line[p+len(a):]), nil
			}
		}
		return "", nil
	case "behindList":
		a, e := strArg(0)
		if e != nil {
			return nil, e
		}
		key := strings.TrimSpace(a)
		var items []Value
		found := false
		for _, line := range strings.Split(s, "\n") {
			line = strings.TrimSpace(line)
			if found {
				if line == "" {
					break
				}
				items = append(items, line)
			} else if line == key {
				found = true
			}
		}
		return NewList(items...), nil
	case "replace":
		a, e := strArg(0)
		if e != nil {
			return nil, e
		}
		b, e := strArg(1)
		if e != nil {
			return nil, e
		}
		if n := strings.Count(s, a); n > 0 && n*len(b)+len(s) > 1<<22 {
			// the result would have several megabytes (repeated replace of the empty string grows without bound)
			return nil, &Err{Msg: "unspecified: string too large for the reference model", Unspec: true, Budget: true}
		}
		return strings.ReplaceAll(s, a, b), nil
	case "toFloat":
		f, err := strconv.ParseFloat(s, 64)
		if err != nil {
			if ne, ok := err.(*strconv.NumError); ok && ne.Err == strconv.ErrRange {
				return nil, unspec("toFloat out of range")
			}
			return nil, errf("not a float: %s", s)
		}
		return f, nil
	case "toInt":
		i, err := strconv.ParseInt(s, 10, 64)
		if err != nil {
			return nil, errf("not an int: %s", s)
		}
		return i, nil
	}
	return nil, errf("method %s not found on string", name)
}

// CallStatic models the globally available functions.
func (in *Interp) CallStatic(name string, args []Value) (Value, *Err) {
	v, e := in.callStatic(name, args)
	if (e == nil || e.IsThrown) && in.Builtins != nil {
		in.Builtins["global."+name]++
	}
	return v, e
}

func (in *Interp) callStatic(name string, args []Value) (Value, *Err) {
	for _, a := range args {
		if isOpaque(a) {
			if name == "string" && len(args) == 1 {
				return a, nil
			}
			return nil, unspec("error text passed to a built-in")
		}
	}
	one := func() (Value, *Err) {
		if len(args) != 1 {
			return nil, errf("wrong number of arguments at call of %s", name)
		}
		return args[0], nil
	}
	floatFn := func(valid func(float64) bool, f func(float64) float64) (Value, *Err) {
		a, e := one()
		if e != nil {
			return nil, e
		}
		x, ok := toFloat(a)
		if !ok {
			return nil, errf("%s not allowed on %s", name, TypeName(a))
		}
		if valid != nil && !valid(x) {
			return nil, errf("%s not allowed with argument %v", name, x)
		}
		return f(x), nil
	}
	switch name {
	case "throw":
		a, e := one()
		if e != nil {
			return nil, e
		}
		if s, ok := a.(string); ok {
			return nil, &Err{Msg: s, Thrown: s, IsThrown: true}
		}
		return nil, errf("throw needs a string")
	case "string":
		a, e := one()
		if e != nil {
			return nil, e
		}
		s, e := in.ToString(a)
		if e != nil {
			return nil, e
		}
		return s, nil
	case "isFloat":
		a, e := one()
		if e != nil {
			return nil, e
		}
		_, ok := a.(float64)
		return ok, nil
	case "isInt":
		a, e := one()
		if e != nil {
			return nil, e
		}
		_, ok := a.(int64)
		return ok, nil
	case "float":
		return floatFn(nil, func(x float64) float64 { return x })
	case "int":
		a, e := one()
		if e != nil {
			return nil, e
		}
		switch t := a.(type) {
		case int64:
			return t, nil
		case float64:
			return floatToIntV(t)
		}
		return nil, errf("int not allowed on %s", TypeName(a))
	case "abs":
		a, e := one()
		if e != nil {
			return nil, e
		}
		switch t := a.(type) {
		case int64:
			if t < 0 {
				return -t, nil
			}
			return t, nil
		case float64:
			return math.Abs(t), nil
		}
		return nil, errf("abs not allowed on %s", TypeName(a))
	case "sign":
		a, e := one()
		if e != nil {
			return nil, e
		}
		switch t := a.(type) {
		case int64:
			switch {
			case t < 0:
				return int64(-1), nil
			case t == 0:
				return nil, unspec("sign(0): the description says 1, an obvious reading says 0")
			}
			return int64(1), nil
		case float64:
			switch {
			case t < 0:
				return float64(-1), nil
			case t == 0 || math.IsNaN(t):
				return nil, unspec("sign(0)")
			}
			return float64(1), nil
		}
		return nil, errf("sign not allowed on %s", TypeName(a))
	case "sqr":
		a, e := one()
		if e != nil {
			return nil, e
		}
		switch t := a.(type) {
		case int64:
			return t * t, nil
		case float64:
			return t * t, nil
		}
		return nil, errf("sqr not allowed on %s", TypeName(a))
	case "round":
		a, e := one()
		if e != nil {
			return nil, e
		}
		switch t := a.(type) {
		case int64:
			return t, nil
		case float64:
			return floatToIntV(math.Round(t))
		}
		return nil, errf("round not allowed on %s", TypeName(a))
	case "binAnd", "binOr":
		if len(args) != 2 {
			return nil, errf("wrong number of arguments")
		}
		x, ok1 := args[0].(int64)
		y, ok2 := args[1].(int64)
		if !ok1 || !ok2 {
			return nil, errf("%s needs ints", name)
		}
		if name == "binAnd" {
			return x & y, nil
		}
		return x | y, nil
	case "numbers":
		a, e := one()
		if e != nil {
			return nil, e
		}
		n, ok := a.(int64)
		if !ok {
			return nil, errf("numbers requires an int")
		}
		return &List{Iter: func() Pull {
			i := int64(0)
			return func() (Value, *Err, bool) {
				if i >= n {
					return nil, nil, false
				}
				i++
				return i - 1, nil, true
			}
		}}, nil
	case "goto":
		a, e := one()
		if e != nil {
			return nil, e
		}
		n, ok := a.(int64)
		if !ok {
			return nil, errf("goto requires an int")
		}
		return MapOf("state", n), nil
	case "min", "max":
		if len(args) == 0 {
			return nil, errf("%s needs at least one argument", name)
		}
		return in.extreme(args, name == "min")
	case "sqrt":
		return floatFn(func(x float64) bool { return x >= 0 }, math.Sqrt)
	case "ln":
		return floatFn(func(x float64) bool { return x >= 0 }, math.Log)
	case "log10":
		return floatFn(func(x float64) bool { return x >= 0 }, math.Log10)
	case "trunc":
		return floatFn(nil, math.Trunc)
	case "floor":
		return floatFn(nil, math.Floor)
	case "ceil":
		return floatFn(nil, math.Ceil)
	case "exp":
		return floatFn(nil, math.Exp)
	case "sin":
		return floatFn(nil, math.Sin)
	case "cos":
		return floatFn(nil, math.Cos)
	case "tan":
		return floatFn(nil, math.Tan)
	case "asin":
		return floatFn(func(x float64) bool { return x >= -1 && x <= 1 }, math.Asin)
	case "acos":
		return floatFn(func(x float64) bool { return x >= -1 && x <= 1 }, math.Acos)
	case "atan":
		return floatFn(nil, math.Atan)
	case "sprintf", "bisection", "createLowPass", "random", "randomConst":
		return nil, unspec("%s is not modelled", name)
	}
	return nil, errf("function %s not found", name)
}

var staticArity = map[string]int{"throw": 1, "string": 1, "isFloat": 1, "isInt": 1, "float": 1, "int": 1, "abs": 1, "sign": 1, "sqr": 1, "round": 1,
	"binAnd": 2, "binOr": 2, "createLowPass": 4, "numbers": 1, "goto": 1, "sqrt": 1, "ln": 1, "log10": 1, "trunc": 1, "floor": 1, "ceil": 1, "exp": 1,
	"sin": 1, "cos": 1, "tan": 1, "asin": 1, "acos": 1, "atan": 1}

var listArity = map[string]int{"accept": 1, "map": 1, "reduce": 1, "sum": 0, "mapReduce": 2, "mean": 0, "min": 0, "max": 0, "minMax": 1,
	"replaceList": 1, "combine": 1, "combine3": 1, "combineN": 2, "multiUse": 1, "indexWhere": 1, "groupByString": 1, "groupByInt": 1,
	"groupByEqual": 1, "uniqueString": 1, "uniqueInt": 1, "compact": 1, "cross": 2, "merge": 2, "order": 1, "orderRev": 1, "orderLess": 1,
	"reverse": 0, "append": 1, "iir": 2, "iirCombine": 2, "iirApply": 1, "visit": 2, "fsm": 1, "top": 1, "skip": 1, "number": 1,
	"present": 1, "set": 2, "size": 0, "first": 0, "single": 0, "last": 0, "eval": 0, "string": 0, "movingWindow": 1,
	"movingWindowRemove": 1, "createInterpolation": 2, "linearReg": 2, "binning": 5, "binning2d": 9, "collectBinning": 0}

var mapArity = map[string]int{"eval": 0, "accept": 1, "map": 1, "replaceMap": 1, "list": 0, "size": 0, "string": 0, "isAvail": -1, "get": 1, "put": 2, "replace": 1, "combine": 2}

var stringArity = map[string]int{"len": 0, "string": 0, "trim": 0, "toLower": 0, "toUpper": 0, "contains": 1, "indexOf": 1, "split": 1, "cut": 2,
	"behind": 1, "behindList": 1, "replace": 2, "toFloat": 0, "toInt": 0}

var methodArity = map[string]map[string]int{
	"list": listArity, "map": mapArity, "string": stringArity,
	"int": {"string": 0}, "float": {"string": 0}, "bool": {"string": 0}, "closure": {"args": 0, "invoke": 1},
}

// MethodCheck reports whether the receiver's type has the built-in method and whether nargs fits.
func (in *Interp) MethodCheck(recv Value, name string, nargs int) (exists, arityOK bool) {
	if isOpaque(recv) {
		return true, true
	}
	a, ok := methodArity[TypeName(recv)][name]
	if !ok {
		return false, false
	}
	return true, a < 0 || a == nargs
}
