package ref

import (
	"math"
	"sort"
)

func asFunc(name string, v Value, arity int) (*Closure, *Err) {
	c, ok := v.(*Closure)
	if !ok {
		return nil, errf("argument of %s needs to be a function", name)
	}
	if c.Arity != arity {
		return nil, errf("argument of %s needs to be a function with %d arguments", name, arity)
	}
	return c, nil
}

func needArgs(name string, args []Value, n int) *Err {
	if len(args) != n {
		return errf("wrong number of arguments at call of %s: %d instead of %d", name, len(args), n)
	}
	return nil
}

// probe models the read-ahead of one element that a short-circuit consumer may perform.
func (in *Interp) probe(p Pull) {
	if in.NoShadow {
		return
	}
	saveFuel := in.fuel
	in.shadowing = true
	_, e, _ := p()
	in.shadowing = false
	if e != nil && !e.Unspec {
		in.ReadAheadErr = true
	}
	if e != nil && e.Unspec {
		in.ReadAheadErr = true
	}
	in.fuel = saveFuel
}

func lazy(iter func() Pull) *List { return &List{Iter: iter} }

func orderOpen(l *List) bool { return l.Unordered || len(l.Ties) > 0 }

// orderSensitive returns an unspec error when an order-sensitive operation meets a list whose order is open.
func (in *Interp) orderSensitive(l *List, what string) *Err {
	if !orderOpen(l) {
		return nil
	}
	return unspec("%s on a list whose order is unspecified", what)
}

func (in *Interp) callBool(f *Closure, what string, args ...Value) (bool, *Err) {
	v, e := in.Call(f, args)
	if e != nil {
		return false, e
	}
	b, ok := v.(bool)
	if !ok {
		if isOpaque(v) {
			return false, unspec("error text used as bool")
		}
		return false, errf("function in %s does not return a bool", what)
	}
	return b, nil
}

var listOrderFree = map[string]bool{"size": true, "map": true, "accept": true, "eval": true, "sum": false}

func (in *Interp) listMethod(l *List, name string, args []Value) (Value, *Err) {
	arity := listArity
	_ = map[string]int{"accept": 1, "map": 1, "reduce": 1, "sum": 0, "mapReduce": 2, "mean": 0, "min": 0, "max": 0, "minMax": 1,
		"replaceList": 1, "combine": 1, "combine3": 1, "combineN": 2, "multiUse": 1, "indexWhere": 1, "groupByString": 1, "groupByInt": 1,
		"groupByEqual": 1, "uniqueString": 1, "uniqueInt": 1, "compact": 1, "cross": 2, "merge": 2, "order": 1, "orderRev": 1, "orderLess": 1,
		"reverse": 0, "append": 1, "iir": 2, "iirCombine": 2, "iirApply": 1, "visit": 2, "fsm": 1, "top": 1, "skip": 1, "number": 1,
		"present": 1, "set": 2, "size": 0, "first": 0, "single": 0, "last": 0, "eval": 0, "string": 0, "movingWindow": 1,
		"movingWindowRemove": 1, "createInterpolation": 2, "linearReg": 2, "binning": 5, "binning2d": 9, "collectBinning": 0}
	n, ok := arity[name]
	if !ok {
		return nil, errf("method %s not found on list", name)
	}
	if e := needArgs(name, args, n); e != nil {
		return nil, e
	}
	if orderOpen(l) && !listOrderFree[name] {
		// element-wise and counting operations keep their meaning; everything else depends on the order
		items, e := in.Force(l)
		if e != nil {
			if e.Unspec {
				return nil, e
			}
			// whether the failing element is reached by this (possibly lazy) operation is decided below only
			// for lists with a specified order
			return nil, unspec("%s on a failing list whose order is unspecified", name)
		}
		if len(items) > 1 {
			return nil, unspec("%s on a list whose order is unspecified", name)
		}
	}
	switch name {
	case "accept":
		f, e := asFunc(name, args[0], 1)
		if e != nil {
			return nil, e
		}
		return &List{Unordered: l.Unordered, Ties: tiesAfterFilter(l), Iter: func() Pull {
			p := l.Iter()
			return func() (Value, *Err, bool) {
				for {
					v, e, ok := p()
					if e != nil || !ok {
						return nil, e, ok
					}
					b, e := in.callBool(f, "accept", v)
					if e != nil {
						return nil, e, true
					}
					if b {
						return v, nil, true
					}
				}
			}
		}}, nil
	case "map":
		f, e := asFunc(name, args[0], 1)
		if e != nil {
			return nil, e
		}
		return &List{Unordered: l.Unordered, Ties: l.Ties, Iter: func() Pull {
			p := l.Iter()
			return func() (Value, *Err, bool) {
				v, e, ok := p()
				if e != nil || !ok {
					return nil, e, ok
				}
				r, e := in.Call(f, []Value{v})
				return r, e, true
			}
		}}, nil
	case "reduce":
		f, e := asFunc(name, args[0], 2)
		if e != nil {
			return nil, e
		}
		// items are pulled one by one, the function is called before the next item is pulled
		var acc Value
		n := 0
		if e := in.each(l, func(it Value) *Err {
			n++
			if n == 1 {
				acc = it
				return nil
			}
			var ce *Err
			acc, ce = in.Call(f, []Value{acc, it})
			return ce
		}); e != nil {
			return nil, e
		}
		if n == 0 {
			return nil, errf("reduce on empty list")
		}
		return acc, nil
	case "sum", "mean":
		var acc Value
		n := 0
		if e := in.each(l, func(it Value) *Err {
			n++
			if n == 1 {
				acc = it
				return nil
			}
			var ce *Err
			acc, ce = in.BinOp("+", acc, it)
			return ce
		}); e != nil {
			return nil, e
		}
		if n == 0 {
			return nil, errf("%s on empty list", name)
		}
		if name == "mean" {
			return in.BinOp("/", acc, int64(n))
		}
		return acc, nil
	case "mapReduce":
		f, e := asFunc(name, args[1], 2)
		if e != nil {
			return nil, e
		}
		acc := args[0]
		if e := in.each(l, func(it Value) *Err {
			var ce *Err
			acc, ce = in.Call(f, []Value{acc, it})
			return ce
		}); e != nil {
			return nil, e
		}
		return acc, nil
	case "min", "max":
		items, e := in.Force(l)
		if e != nil {
			return nil, e
		}
		if len(items) == 0 {
			return nil, errf("%s of empty list", name)
		}
		return in.extreme(items, name == "min")
	case "minMax":
		f, e := asFunc(name, args[0], 1)
		if e != nil {
			return nil, e
		}
		var items, keys []Value
		mi, ma := 0, 0
		if e := in.each(l, func(it Value) *Err {
			k, ce := in.Call(f, []Value{it})
			if ce != nil {
				return ce
			}
			items, keys = append(items, it), append(keys, k)
			i := len(items) - 1
			if i == 0 {
				return nil
			}
			// compared with the extremes found so far before the next item is pulled
			lt, ce := in.Less(keys[i], keys[mi])
			if ce != nil {
				return ce
			}
			if lt {
				mi = i
			}
			gt, ce := in.Less(keys[ma], keys[i])
			if ce != nil {
				return ce
			}
			if gt {
				ma = i
			}
			return nil
		}); e != nil {
			return nil, e
		}
		if len(items) == 0 {
			return MapOf("min", int64(0), "max", int64(0), "minItem", int64(0), "maxItem", int64(0), "valid", false), nil
		}
		// ties: which of several extremal items is reported is not documented
		for i := range items {
			if i != mi {
				if eq, e := in.Equal(keys[i], keys[mi]); e == nil && eq {
					if s1, s2 := in.describe(items[i], 0), in.describe(items[mi], 0); s1 != s2 {
						return nil, unspec("minMax with several minimal items")
					}
				}
			}
			if i != ma {
				if eq, e := in.Equal(keys[i], keys[ma]); e == nil && eq {
					if s1, s2 := in.describe(items[i], 0), in.describe(items[ma], 0); s1 != s2 {
						return nil, unspec("minMax with several maximal items")
					}
				}
			}
		}
		return MapOf("min", keys[mi], "max", keys[ma], "minItem", items[mi], "maxItem", items[ma], "valid", true), nil
	case "replaceList":
		f, e := asFunc(name, args[0], 1)
		if e != nil {
			return nil, e
		}
		return in.Call(f, []Value{l})
	case "combine", "combine3", "combineN":
		n := 2
		fa := args[0]
		if name == "combine3" {
			n = 3
		}
		if name == "combineN" {
			nn, ok := args[0].(int64)
			if !ok {
				return nil, errf("first argument of combineN needs to be an int")
			}
			if nn < 1 {
				return nil, errf("combineN needs a positive window size")
			}
			if nn > 1<<20 {
				return nil, unspec("huge combineN window")
			}
			n = int(nn)
			fa = args[1]
		}
		fArity := n
		if name == "combineN" {
			fArity = 1
		}
		f, e := asFunc(name, fa, fArity)
		if e != nil {
			return nil, e
		}
		return lazy(func() Pull {
			p := l.Iter()
			var win []Value
			return func() (Value, *Err, bool) {
				for len(win) < n {
					v, e, ok := p()
					if e != nil || !ok {
						return nil, e, ok
					}
					win = append(win, v)
				}
				var r Value
				var e *Err
				if name == "combineN" {
					r, e = in.Call(f, []Value{NewList(append([]Value{}, win...)...)})
				} else {
					r, e = in.Call(f, append([]Value{}, win...))
				}
				win = append([]Value{}, win[1:]...)
				return r, e, true
			}
		}), nil
	case "multiUse":
		return in.multiUse(l, args[0])
	case "indexWhere":
		f, e := asFunc(name, args[0], 1)
		if e != nil {
			return nil, e
		}
		p := l.Iter()
		for i := int64(0); ; i++ {
			v, e, ok := p()
			if e != nil {
				return nil, e
			}
			if !ok {
				return int64(-1), nil
			}
			b, e := in.callBool(f, name, v)
			if e != nil {
				return nil, e
			}
			if b {
				in.probe(p)
				return i, nil
			}
			if e := in.tick(); e != nil {
				return nil, e
			}
		}
	case "present":
		f, e := asFunc(name, args[0], 1)
		if e != nil {
			return nil, e
		}
		p := l.Iter()
		for {
			v, e, ok := p()
			if e != nil {
				return nil, e
			}
			if !ok {
				return false, nil
			}
			b, e := in.callBool(f, name, v)
			if e != nil {
				return nil, e
			}
			if b {
				in.probe(p)
				return true, nil
			}
			if e := in.tick(); e != nil {
				return nil, e
			}
		}
	case "groupByString", "groupByInt", "groupByEqual":
		f, e := asFunc(name, args[0], 1)
		if e != nil {
			return nil, e
		}
		// the key of an item is computed before the next item is pulled (which of two errors comes first depends on it)
		var keys []Value
		var groups [][]Value
		pull := l.Iter()
		for {
			it, pe, ok := pull()
			if pe != nil {
				return nil, pe
			}
			if !ok {
				break
			}
			if e := in.tick(); e != nil {
				return nil, e
			}
			k, e := in.Call(f, []Value{it})
			if e != nil {
				return nil, e
			}
			switch name {
			case "groupByString":
				s, e := in.ToString(k)
				if e != nil {
					return nil, e
				}
				k = s
			case "groupByInt":
				if _, ok := k.(int64); !ok {
					if isOpaque(k) {
						return nil, unspec("error text as key")
					}
					return nil, errf("groupByInt requires an int as key")
				}
			}
			found := false
			for gi, gk := range keys {
				eq, e := in.Equal(gk, k)
				if e != nil {
					if name == "groupByEqual" && !e.Unspec {
						// which pairs of keys are compared depends on the grouping order
						return nil, unspec("groupByEqual over incomparable keys")
					}
					return nil, e
				}
				if eq {
					groups[gi] = append(groups[gi], it)
					found = true
					break
				}
			}
			if !found {
				keys = append(keys, k)
				groups = append(groups, []Value{it})
			}
		}
		res := make([]Value, len(keys))
		for i := range keys {
			res[i] = MapOf("key", keys[i], "values", NewList(groups[i]...))
		}
		r := NewList(res...)
		r.Unordered = true
		return r, nil
	case "uniqueString", "uniqueInt":
		f, e := asFunc(name, args[0], 1)
		if e != nil {
			return nil, e
		}
		var keys []Value
		pull := l.Iter()
		for {
			it, pe, ok := pull()
			if pe != nil {
				return nil, pe
			}
			if !ok {
				break
			}
			if e := in.tick(); e != nil {
				return nil, e
			}
			k, e := in.Call(f, []Value{it})
			if e != nil {
				return nil, e
			}
			if name == "uniqueString" {
				s, e := in.ToString(k)
				if e != nil {
					return nil, e
				}
				k = s
			} else if _, ok := k.(int64); !ok {
				if isOpaque(k) {
					return nil, unspec("error text as key")
				}
				return nil, errf("uniqueInt requires an int as key")
			}
			dup := false
			for _, ek := range keys {
				if ek == k {
					dup = true
				}
			}
			if !dup {
				keys = append(keys, k)
			}
		}
		r := NewList(keys...)
		r.Unordered = true
		return r, nil
	case "compact":
		f, e := asFunc(name, args[0], 2)
		if e != nil {
			return nil, e
		}
		return lazy(func() Pull {
			p := l.Iter()
			var last Value
			have := false
			return func() (Value, *Err, bool) {
				for {
					v, e, ok := p()
					if e != nil || !ok {
						return nil, e, ok
					}
					if !have {
						have, last = true, v
						return v, nil, true
					}
					eq, e := in.callBool(f, "compact", last, v)
					if e != nil {
						return nil, e, true
					}
					if !eq {
						last = v
						return v, nil, true
					}
					// The description speaks of successive pairs, the result keeps the first of a run.
					// For an equivalence relation both readings agree; generators only use such callbacks.
				}
			}
		}), nil
	case "cross":
		other, ok := args[0].(*List)
		if !ok {
			return nil, errf("first argument of cross needs to be a list")
		}
		f, e := asFunc(name, args[1], 2)
		if e != nil {
			return nil, e
		}
		if orderOpen(other) {
			return nil, unspec("cross with a list whose order is unspecified")
		}
		return lazy(func() Pull {
			pa := l.Iter()
			var a Value
			var pb Pull
			return func() (Value, *Err, bool) {
				for {
					if pb == nil {
						v, e, ok := pa()
						if e != nil || !ok {
							return nil, e, ok
						}
						a = v
						pb = other.Iter()
					}
					b, e, ok := pb()
					if e != nil {
						return nil, e, true
					}
					if !ok {
						pb = nil
						continue
					}
					r, e := in.Call(f, []Value{a, b})
					return r, e, true
				}
			}
		}), nil
	case "merge":
		other, ok := args[0].(*List)
		if !ok {
			return nil, errf("first argument of merge needs to be a list")
		}
		f, e := asFunc(name, args[1], 2)
		if e != nil {
			return nil, e
		}
		if orderOpen(other) {
			return nil, unspec("merge with a list whose order is unspecified")
		}
		return lazy(func() Pull {
			pa, pb := l.Iter(), other.Iter()
			var a, b Value
			haveA, haveB, endA, endB := false, false, false, false
			return func() (Value, *Err, bool) {
				if !haveA && !endA {
					v, e, ok := pa()
					if e != nil {
						return nil, e, true
					}
					if ok {
						a, haveA = v, true
					} else {
						endA = true
					}
				}
				if !haveB && !endB {
					v, e, ok := pb()
					if e != nil {
						return nil, e, true
					}
					if ok {
						b, haveB = v, true
					} else {
						endB = true
					}
				}
				switch {
				case haveA && haveB:
					lt, e := in.callBool(f, "merge", a, b)
					if e != nil {
						return nil, e, true
					}
					if lt {
						haveA = false
						return a, nil, true
					}
					haveB = false
					return b, nil, true
				case haveA:
					haveA = false
					return a, nil, true
				case haveB:
					haveB = false
					return b, nil, true
				}
				return nil, nil, false
			}
		}), nil
	case "order", "orderRev":
		f, e := asFunc(name, args[0], 1)
		if e != nil {
			return nil, e
		}
		items, e := in.Force(l)
		if e != nil {
			return nil, e
		}
		keys := make([]Value, len(items))
		for i, it := range items {
			keys[i], e = in.Call(f, []Value{it})
			if e != nil {
				if len(items) < 2 && !e.Unspec {
					return nil, unspec("sort callback that fails on a list it need not be called for")
				}
				return nil, e
			}
		}
		// Which pairs a sort compares is open, but the comparisons it makes must connect all items (otherwise
		// the order of two groups would be a guess): if the comparable pairs do not connect the keys, an
		// incomparable pair is met for certain; if they connect them but some pair is incomparable, it is open.
		nErr := 0
		comp := make([]int, len(keys))
		for i := range comp {
			comp[i] = i
		}
		var find func(int) int
		find = func(x int) int {
			for comp[x] != x {
				comp[x] = comp[comp[x]]
				x = comp[x]
			}
			return x
		}
		for i := range keys {
			for j := i + 1; j < len(keys); j++ {
				if _, e := in.Less(keys[i], keys[j]); e != nil {
					if e.Unspec {
						return nil, e
					}
					nErr++
				} else {
					comp[find(i)] = find(j)
				}
			}
		}
		if nErr > 0 {
			for i := range keys {
				if find(i) != find(0) {
					return nil, errf("sort keys are not comparable")
				}
			}
			return nil, unspec("sort over partially incomparable keys")
		}
		idx := make([]int, len(items))
		for i := range idx {
			idx[i] = i
		}
		rev := name == "orderRev"
		sort.SliceStable(idx, func(x, y int) bool {
			var lt bool
			if rev {
				lt, _ = in.Less(keys[idx[y]], keys[idx[x]])
			} else {
				lt, _ = in.Less(keys[idx[x]], keys[idx[y]])
			}
			return lt
		})
		out := make([]Value, len(items))
		for i, k := range idx {
			out[i] = items[k]
		}
		r := NewList(out...)
		// equal keys: stability is not claimed
		for i := 0; i < len(idx); {
			j := i + 1
			for j < len(idx) {
				a, _ := in.Less(keys[idx[i]], keys[idx[j]])
				b, _ := in.Less(keys[idx[j]], keys[idx[i]])
				if a || b {
					break
				}
				j++
			}
			if j-i > 1 {
				r.Ties = append(r.Ties, [2]int{i, j})
			}
			i = j
		}
		// NaN keys make the order meaningless
		for _, k := range keys {
			if f, ok := k.(float64); ok && math.IsNaN(f) {
				return nil, unspec("sorting by NaN")
			}
		}
		return r, nil
	case "orderLess":
		f, e := asFunc(name, args[0], 2)
		if e != nil {
			return nil, e
		}
		items, e := in.Force(l)
		if e != nil {
			return nil, e
		}
		// the callback must be a strict weak order on the items; evaluate it on all pairs
		n := len(items)
		lt := make([][]bool, n)
		nErr := 0
		for i := range items {
			lt[i] = make([]bool, n)
			for j := range items {
				if i == j {
					continue
				}
				b, e := in.callBool(f, name, items[i], items[j])
				if e != nil {
					if e.Unspec {
						return nil, e
					}
					nErr++
					continue
				}
				lt[i][j] = b
			}
		}
		if nErr > 0 {
			if nErr == n*(n-1) {
				return nil, errf("orderLess callback fails")
			}
			return nil, unspec("orderLess callback fails on some pairs")
		}
		for i := 0; i < n; i++ {
			for j := 0; j < n; j++ {
				if i != j && lt[i][j] && lt[j][i] {
					return nil, unspec("orderLess callback is not asymmetric")
				}
				for k := 0; k < n; k++ {
					if i != j && j != k && i != k {
						if lt[i][j] && lt[j][k] && !lt[i][k] {
							return nil, unspec("orderLess callback is not transitive")
						}
						// transitivity of equivalence
						if !lt[i][j] && !lt[j][i] && !lt[j][k] && !lt[k][j] && (lt[i][k] || lt[k][i]) {
							return nil, unspec("orderLess callback is not a weak order")
						}
					}
				}
			}
		}
		idx := make([]int, n)
		for i := range idx {
			idx[i] = i
		}
		sort.SliceStable(idx, func(x, y int) bool { return lt[idx[x]][idx[y]] })
		out := make([]Value, n)
		for i, k := range idx {
			out[i] = items[k]
		}
		r := NewList(out...)
		for i := 0; i < n; {
			j := i + 1
			for j < n && !lt[idx[i]][idx[j]] && !lt[idx[j]][idx[i]] {
				j++
			}
			if j-i > 1 {
				r.Ties = append(r.Ties, [2]int{i, j})
			}
			i = j
		}
		return r, nil
	case "reverse":
		items, e := in.Force(l)
		if e != nil {
			return nil, e
		}
		out := make([]Value, len(items))
		for i, it := range items {
			out[len(items)-1-i] = it
		}
		return NewList(out...), nil
	case "append":
		items, e := in.Force(l)
		if e != nil {
			return nil, e
		}
		return NewList(append(append([]Value{}, items...), args[0])...), nil
	case "set":
		i, ok := args[0].(int64)
		if !ok {
			return nil, errf("set needs an int index")
		}
		items, e := in.Force(l)
		if e != nil {
			return nil, e
		}
		if i < 0 || i >= int64(len(items)) {
			return nil, errf("index out of range")
		}
		out := append([]Value{}, items...)
		out[i] = args[1]
		return NewList(out...), nil
	case "iir", "iirCombine", "iirApply", "fsm":
		var initial, fn *Closure
		var e *Err
		switch name {
		case "iir":
			if initial, e = asFunc(name, args[0], 1); e != nil {
				return nil, e
			}
			if fn, e = asFunc(name, args[1], 2); e != nil {
				return nil, e
			}
		case "iirCombine":
			if initial, e = asFunc(name, args[0], 1); e != nil {
				return nil, e
			}
			if fn, e = asFunc(name, args[1], 3); e != nil {
				return nil, e
			}
		case "iirApply":
			m, ok := args[0].(*Map)
			if !ok {
				return nil, errf("iirApply needs a map")
			}
			iv, ok1 := m.Get("initial")
			fv, ok2 := m.Get("filter")
			if !ok1 || !ok2 {
				return nil, errf("iirApply needs the keys initial and filter")
			}
			if initial, e = asFunc(name, iv, 1); e != nil {
				return nil, e
			}
			if fn, e = asFunc(name, fv, 3); e != nil {
				return nil, e
			}
		case "fsm":
			if fn, e = asFunc(name, args[0], 2); e != nil {
				return nil, e
			}
		}
		return lazy(func() Pull {
			p := l.Iter()
			var last, lastItem Value
			first := true
			return func() (Value, *Err, bool) {
				v, e, ok := p()
				if e != nil || !ok {
					return nil, e, ok
				}
				var r Value
				switch {
				case name == "fsm" && first:
					r, e = in.Call(fn, []Value{MapOf("state", int64(0)), v})
				case name == "fsm":
					r, e = in.Call(fn, []Value{last, v})
				case first:
					r, e = in.Call(initial, []Value{v})
				case name == "iir":
					r, e = in.Call(fn, []Value{v, last})
				default:
					r, e = in.Call(fn, []Value{lastItem, v, last})
				}
				if e != nil {
					return nil, e, true
				}
				first = false
				last, lastItem = r, v
				return r, nil, true
			}
		}), nil
	case "visit":
		f, e := asFunc(name, args[1], 2)
		if e != nil {
			return nil, e
		}
		acc := args[0]
		if e := in.each(l, func(it Value) *Err {
			var ce *Err
			acc, ce = in.Call(f, []Value{acc, it})
			return ce
		}); e != nil {
			return nil, e
		}
		return acc, nil
	case "top":
		n, ok := args[0].(int64)
		if !ok {
			return nil, errf("top needs an int")
		}
		return lazy(func() Pull {
			p := l.Iter()
			i := int64(0)
			probed := false
			return func() (Value, *Err, bool) {
				if i >= n {
					if !probed {
						probed = true
						in.probe(p)
					}
					return nil, nil, false
				}
				v, e, ok := p()
				if e != nil || !ok {
					return nil, e, ok
				}
				i++
				return v, nil, true
			}
		}), nil
	case "skip":
		n, ok := args[0].(int64)
		if !ok {
			return nil, errf("skip needs an int")
		}
		return lazy(func() Pull {
			p := l.Iter()
			i := int64(0)
			return func() (Value, *Err, bool) {
				for i < n {
					_, e, ok := p()
					if e != nil || !ok {
						return nil, e, ok
					}
					i++
				}
				return p()
			}
		}), nil
	case "number":
		f, e := asFunc(name, args[0], 2)
		if e != nil {
			return nil, e
		}
		return lazy(func() Pull {
			p := l.Iter()
			i := int64(0)
			return func() (Value, *Err, bool) {
				v, e, ok := p()
				if e != nil || !ok {
					return nil, e, ok
				}
				r, e := in.Call(f, []Value{i, v})
				i++
				return r, e, true
			}
		}), nil
	case "size":
		items, e := in.Force(l)
		if e != nil {
			return nil, e
		}
		return int64(len(items)), nil
	case "first":
		p := l.Iter()
		v, e, ok := p()
		if e != nil {
			return nil, e
		}
		if !ok {
			return nil, errf("first on empty list")
		}
		in.probe(p)
		return v, nil
	case "single":
		p := l.Iter()
		v, e, ok := p()
		if e != nil {
			return nil, e
		}
		if !ok {
			return nil, errf("single on empty list")
		}
		_, e, ok = p()
		if e != nil {
			return nil, e
		}
		if ok {
			in.probe(p)
			return nil, errf("single on a list with more than one item")
		}
		return v, nil
	case "last":
		items, e := in.Force(l)
		if e != nil {
			return nil, e
		}
		if len(items) == 0 {
			return nil, errf("last on empty list")
		}
		return items[len(items)-1], nil
	case "eval":
		items, e := in.Force(l)
		if e != nil {
			return nil, e
		}
		r := NewList(items...)
		r.Unordered, r.Ties = l.Unordered, l.Ties
		return r, nil
	case "string":
		s, e := in.ToString(l)
		if e != nil {
			return nil, e
		}
		return s, nil
	case "movingWindow":
		f, e := asFunc(name, args[0], 1)
		if e != nil {
			return nil, e
		}
		items, e := in.Force(l)
		if e != nil {
			return nil, e
		}
		vals := make([]float64, len(items))
		for i, it := range items {
			v, e := in.Call(f, []Value{it})
			if e != nil {
				return nil, e
			}
			fl, ok := toFloat(v)
			if !ok {
				if isOpaque(v) {
					return nil, unspec("error text as number")
				}
				return nil, errf("function in movingWindow needs to return a float")
			}
			vals[i] = fl
		}
		for i := 1; i < len(vals); i++ {
			if !(vals[i] >= vals[i-1]) {
				return nil, unspec("movingWindow over values that are not non-decreasing")
			}
		}
		var out []Value
		start := 0
		for i, v := range vals {
			for math.Abs(v-vals[start]) > 1 {
				start++
			}
			for k := start; k <= i; k++ {
				if math.Abs(v-vals[k]) == 1 {
					return nil, unspec("movingWindow with a difference of exactly 1")
				}
			}
			if start > 0 && math.Abs(v-vals[start-1]) == 1 {
				return nil, unspec("movingWindow with a difference of exactly 1")
			}
			out = append(out, NewList(append([]Value{}, items[start:i+1]...)...))
		}
		return NewList(out...), nil
	case "movingWindowRemove":
		f, e := asFunc(name, args[0], 1)
		if e != nil {
			return nil, e
		}
		items, e := in.Force(l)
		if e != nil {
			return nil, e
		}
		var out []Value
		start := 0
		for i := range items {
			for {
				win := NewList(append([]Value{}, items[start:i+1]...)...)
				if start == i {
					out = append(out, win)
					break
				}
				rm, e := in.callBool(f, name, win)
				if e != nil {
					return nil, e
				}
				if rm {
					start++
				} else {
					out = append(out, win)
					break
				}
			}
		}
		return NewList(out...), nil
	case "createInterpolation", "linearReg", "binning", "binning2d", "collectBinning":
		return nil, unspec("%s is modelled by its own property / numerically", name)
	}
	return nil, errf("method %s not found on list", name)
}

func tiesAfterFilter(l *List) [][2]int {
	if len(l.Ties) > 0 {
		return [][2]int{{0, 1 << 30}}
	}
	return nil
}

func (in *Interp) extreme(items []Value, min bool) (Value, *Err) {
	// all pairs comparable, otherwise: every pair fails -> error; some -> open
	nErr, nPairs := 0, 0
	for i := range items {
		for j := i + 1; j < len(items); j++ {
			nPairs++
			if _, e := in.Less(items[i], items[j]); e != nil {
				if e.Unspec {
					return nil, e
				}
				nErr++
			}
		}
	}
	if nErr > 0 {
		if nErr == nPairs {
			return nil, errf("values are not comparable")
		}
		return nil, unspec("extreme over partially incomparable values")
	}
	m := items[0]
	for _, v := range items[1:] {
		var lt bool
		if min {
			lt, _ = in.Less(v, m)
		} else {
			lt, _ = in.Less(m, v)
		}
		if lt {
			m = v
		}
	}
	// ties between an int and a float of equal value: which one is returned is not documented
	for _, v := range items {
		if eq, e := in.Equal(v, m); e == nil && eq && TypeName(v) != TypeName(m) {
			return nil, unspec("extreme with int/float ties")
		}
		if f, ok := v.(float64); ok && math.IsNaN(f) {
			return nil, unspec("extreme over NaN")
		}
	}
	return m, nil
}

func (in *Interp) multiUse(l *List, arg Value) (Value, *Err) {
	m, ok := arg.(*Map)
	if !ok {
		return nil, errf("multiUse needs a map of functions")
	}
	if len(m.Keys) == 0 {
		return nil, errf("multiUse needs functions")
	}
	var fs []*Closure
	for _, v := range m.Vals {
		c, e := asFunc("multiUse", v, 1)
		if e != nil {
			return nil, e
		}
		fs = append(fs, c)
	}
	res := &Map{Unordered: m.Unordered}
	var firstErr *Err
	nErr := 0
	for i, f := range fs {
		uses, pulls := 0, 0
		view := &List{Iter: func() Pull {
			uses++
			if uses > 1 {
				return func() (Value, *Err, bool) { return nil, nil, false }
			}
			p := l.Iter()
			return func() (Value, *Err, bool) {
				if !in.shadowing {
					pulls++
				}
				return p()
			}
		}}
		v, e := in.Call(f, []Value{view})
		if e == nil {
			// results are evaluated completely before they are returned (the list can be read only once)
			v, e = in.materialize(v)
		}
		if e == nil && pulls == 0 {
			uses = 0
		}
		if e == nil && uses > 1 {
			e = errf("the list handed to a multiUse function can only be used once")
		}
		if e == nil && uses == 0 {
			// the implementation waits 5 s for a function that never reads its list and then fails
			// ("iterator timed out", expected by the repository's own tests); the description does not say so
			return nil, unspec("multiUse function that does not read the list")
		}
		if e != nil {
			if e.Unspec {
				return nil, e
			}
			nErr++
			if firstErr == nil {
				firstErr = e
			}
			continue
		}
		res.Keys = append(res.Keys, m.Keys[i])
		res.Vals = append(res.Vals, v)
	}
	if firstErr != nil {
		return nil, firstErr
	}
	return res, nil
}

func (in *Interp) deepForce(v Value) *Err {
	switch t := v.(type) {
	case *List:
		items, e := in.Force(t)
		if e != nil {
			return e
		}
		for _, it := range items {
			if e := in.deepForce(it); e != nil {
				return e
			}
		}
	case *Map:
		for _, x := range t.Vals {
			if e := in.deepForce(x); e != nil {
				return e
			}
		}
	}
	return nil
}

// materialize replaces every list inside v by an evaluated copy.
func (in *Interp) materialize(v Value) (Value, *Err) {
	switch t := v.(type) {
	case *List:
		items, e := in.Force(t)
		if e != nil {
			return nil, e
		}
		out := make([]Value, len(items))
		for i, it := range items {
			if out[i], e = in.materialize(it); e != nil {
				return nil, e
			}
		}
		r := NewList(out...)
		r.Unordered, r.Ties = t.Unordered, t.Ties
		return r, nil
	case *Map:
		m := &Map{Keys: t.Keys, Unordered: t.Unordered}
		for _, x := range t.Vals {
			y, e := in.materialize(x)
			if e != nil {
				return nil, e
			}
			m.Vals = append(m.Vals, y)
		}
		return m, nil
	}
	return v, nil
}
