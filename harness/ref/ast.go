// Package ref is the independent reference model of the value expression
// language: a harness-owned AST with a printer to source text, a naive
// environment-passing interpreter and lazy/eager models of the built-ins. It is
// written from the property statements, the README and the method
// descriptions, not from the library code, and never imports parser2.
package ref

import (
	"strconv"
	"strings"
)

type Kind int

const (
	KInt Kind = iota
	KFloat
	KStr
	KBool
	KIdent
	KLet     // let Name = X; Y
	KFunc    // func Name(Params) X; Y
	KClosure // Params -> X
	KIf      // if X then Y else Z
	KSwitch  // switch X case CaseC[i]: CaseR[i] ... default Z
	KTry     // try X catch Y
	KUnary   // Op X
	KBinary  // X Op Y
	KList    // [Args]
	KMap     // {Keys[i]: Args[i]}
	KIndex   // X[Y]
	KMember  // X.Name
	KMethod  // X.Name(Args)
	KCall    // X(Args)
	KStatic  // Name(Args)
	KRaw     // raw source text S with meaning given by X (used for layout/alias variants)
)

type Node struct {
	K       Kind
	I       int64
	F       float64
	S       string
	B       bool
	Name    string
	Op      string
	X, Y, Z *Node
	Args    []*Node
	Params  []string
	Keys    []string
	CaseC   []*Node
	CaseR   []*Node
}

// constructors
func Int(i int64) *Node {
	if i < 0 {
		return &Node{K: KUnary, Op: "-", X: &Node{K: KInt, I: -i}}
	}
	return &Node{K: KInt, I: i}
}
func Float(f float64) *Node {
	if f < 0 || (f == 0 && 1/f < 0) {
		return &Node{K: KUnary, Op: "-", X: &Node{K: KFloat, F: -f}}
	}
	return &Node{K: KFloat, F: f}
}
func Str(s string) *Node              { return &Node{K: KStr, S: s} }
func Bool(b bool) *Node               { return &Node{K: KBool, B: b} }
func Id(n string) *Node               { return &Node{K: KIdent, Name: n} }
func Let(n string, v, in *Node) *Node { return &Node{K: KLet, Name: n, X: v, Y: in} }
func Func(n string, p []string, b, in *Node) *Node {
	return &Node{K: KFunc, Name: n, Params: p, X: b, Y: in}
}
func Clo(p []string, b *Node) *Node              { return &Node{K: KClosure, Params: p, X: b} }
func If(c, t, e *Node) *Node                     { return &Node{K: KIf, X: c, Y: t, Z: e} }
func Try(t, c *Node) *Node                       { return &Node{K: KTry, X: t, Y: c} }
func Un(op string, x *Node) *Node                { return &Node{K: KUnary, Op: op, X: x} }
func Bin(op string, x, y *Node) *Node            { return &Node{K: KBinary, Op: op, X: x, Y: y} }
func ListN(a ...*Node) *Node                     { return &Node{K: KList, Args: a} }
func MapN(keys []string, vals []*Node) *Node     { return &Node{K: KMap, Keys: keys, Args: vals} }
func Index(l, i *Node) *Node                     { return &Node{K: KIndex, X: l, Y: i} }
func Member(m *Node, k string) *Node             { return &Node{K: KMember, X: m, Name: k} }
func Method(r *Node, n string, a ...*Node) *Node { return &Node{K: KMethod, X: r, Name: n, Args: a} }
func Call(f *Node, a ...*Node) *Node             { return &Node{K: KCall, X: f, Args: a} }
func Static(n string, a ...*Node) *Node          { return &Node{K: KStatic, Name: n, Args: a} }
func Switch(v *Node, cc, cr []*Node, def *Node) *Node {
	return &Node{K: KSwitch, X: v, CaseC: cc, CaseR: cr, Z: def}
}

// OpPrio gives the priority of the value language's binary operators (ascending).
var OpPrio = map[string]int{"|": 0, "&": 1, "=": 2, "!=": 3, "~": 4, "<": 5, ">": 6, "<=": 7, ">=": 8, "+": 9, "-": 10, "<<": 11, ">>": 12, "*": 13, "%": 14, "/": 15, "^": 16}

const prioMinus = 10

// Count returns the number of nodes.
func (n *Node) Count() int {
	if n == nil {
		return 0
	}
	c := 1 + n.X.Count() + n.Y.Count() + n.Z.Count()
	for _, a := range n.Args {
		c += a.Count()
	}
	for i := range n.CaseC {
		c += n.CaseC[i].Count() + n.CaseR[i].Count()
	}
	return c
}

// Walk visits all nodes.
func (n *Node) Walk(f func(*Node)) {
	if n == nil {
		return
	}
	f(n)
	n.X.Walk(f)
	n.Y.Walk(f)
	n.Z.Walk(f)
	for _, a := range n.Args {
		a.Walk(f)
	}
	for i := range n.CaseC {
		n.CaseC[i].Walk(f)
		n.CaseR[i].Walk(f)
	}
}

// PrintOpts controls rendering.
type PrintOpts struct {
	FullParens bool // parenthesise every binary operand
	// MapName, when set, prints identifiers listed in Attrs as MapName.attr (explicit form for C16)
	MapName string
	Attrs   map[string]bool
	// Mixed prints only some free attribute occurrences explicitly: occurrence k when bit k%64 of MixMask is set
	Mixed   bool
	MixMask uint64
}

// Source renders the program text.
func (n *Node) Source() string { return n.SourceOpts(PrintOpts{}) }

func (n *Node) SourceOpts(o PrintOpts) string {
	var sb strings.Builder
	p := printer{sb: &sb, o: o}
	p.expr(n, map[string]bool{})
	return sb.String()
}

type printer struct {
	sb  *strings.Builder
	o   PrintOpts
	occ int
}

func QuoteStr(s string) string {
	var sb strings.Builder
	sb.WriteByte('"')
	for _, r := range s {
		switch r {
		case '\\':
			sb.WriteString(`\\`)
		case '"':
			sb.WriteString(`\"`)
		case '\n':
			sb.WriteString(`\n`)
		case '\r':
			sb.WriteString(`\r`)
		case '\t':
			sb.WriteString(`\t`)
		default:
			sb.WriteRune(r)
		}
	}
	sb.WriteByte('"')
	return sb.String()
}

func FloatLit(f float64) string {
	s := strconv.FormatFloat(f, 'g', -1, 64)
	if !strings.ContainsAny(s, ".e") {
		s += ".0"
	}
	return s
}

func isSimpleIdent(s string) bool {
	if s == "" {
		return false
	}
	for i, c := range s {
		if !(c == '_' || (c >= 'a' && c <= 'z') || (c >= 'A' && c <= 'Z') || (i > 0 && c >= '0' && c <= '9')) {
			return false
		}
	}
	switch s {
	case "let", "func", "if", "then", "else", "switch", "case", "default", "const", "try", "catch", "true", "false", "pi":
		return false
	}
	return true
}

func KeyLit(k string) string {
	if isSimpleIdent(k) {
		return k
	}
	return "'" + k + "'"
}

// isPostfixable: can be used directly as receiver of postfix forms / operand of '!'
func isPostfixable(n *Node) bool {
	switch n.K {
	case KIdent, KStr, KBool, KList, KMap, KIndex, KMember, KMethod, KCall, KStatic:
		return true
	}
	return false
}

// extends reports whether the node's text extends maximally to the right
// (its last sub-expression is parsed with parseLet/parseExpression).
func extendsRight(n *Node) bool {
	switch n.K {
	case KLet, KFunc, KClosure, KIf, KSwitch, KTry:
		return true
	}
	return false
}

func (p *printer) w(s string) { p.sb.WriteString(s) }

// parens prints (n); the grammar parses the inside with parseExpression, so a let/func cannot stand there.
func (p *printer) parens(n *Node, bound map[string]bool) {
	if n.K == KLet || n.K == KFunc {
		panic("let/func inside parentheses")
	}
	p.w("(")
	p.expr(n, bound)
	p.w(")")
}

// atom prints n so that it can be followed by a postfix form.
func (p *printer) postfixRecv(n *Node, bound map[string]bool) {
	if isPostfixable(n) {
		p.expr(n, bound)
	} else {
		p.parens(n, bound)
	}
}

func withBound(bound map[string]bool, names ...string) map[string]bool {
	m := make(map[string]bool, len(bound)+len(names))
	for k, v := range bound {
		m[k] = v
	}
	for _, n := range names {
		m[n] = true
	}
	return m
}

func (p *printer) operand(parent *Node, ch *Node, right bool, bound map[string]bool) {
	paren := false
	switch {
	case extendsRight(ch):
		paren = true
	case ch.K == KUnary && ch.Op == "-":
		paren = OpPrio[parent.Op] > prioMinus || p.o.FullParens
	case ch.K == KBinary:
		if p.o.FullParens {
			paren = true
		} else if right {
			paren = OpPrio[ch.Op] <= OpPrio[parent.Op]
		} else {
			paren = OpPrio[ch.Op] < OpPrio[parent.Op]
		}
	}
	if paren {
		p.parens(ch, bound)
	} else {
		p.expr(ch, bound)
	}
}

func (p *printer) args(a []*Node, bound map[string]bool) {
	for i, x := range a {
		if i > 0 {
			p.w(", ")
		}
		p.expr(x, bound)
	}
}

func (p *printer) expr(n *Node, bound map[string]bool) {
	switch n.K {
	case KRaw:
		p.w(n.S)
	case KInt:
		p.w(strconv.FormatInt(n.I, 10))
	case KFloat:
		p.w(FloatLit(n.F))
	case KStr:
		p.w(QuoteStr(n.S))
	case KBool:
		if n.B {
			p.w("true")
		} else {
			p.w("false")
		}
	case KIdent:
		explicit := p.o.MapName != "" && p.o.Attrs[n.Name] && !bound[n.Name]
		if explicit && p.o.Mixed {
			explicit = (p.o.MixMask>>(uint(p.occ)%64))&1 == 1
			p.occ++
		}
		if explicit {
			p.w(p.o.MapName + "." + n.Name)
		} else {
			p.w(n.Name)
		}
	case KLet:
		p.w("let " + n.Name + "=")
		p.letValue(n.X, bound)
		p.w("; ")
		p.expr(n.Y, withBound(bound, n.Name))
	case KFunc:
		p.w("func " + n.Name + "(" + strings.Join(n.Params, ",") + ") ")
		p.expr(n.X, withBound(bound, append([]string{n.Name}, n.Params...)...))
		p.w("; ")
		p.expr(n.Y, withBound(bound, n.Name))
	case KClosure:
		if len(n.Params) == 1 {
			p.w(n.Params[0] + "->")
		} else {
			p.w("(" + strings.Join(n.Params, ",") + ")->")
		}
		p.expr(n.X, withBound(bound, n.Params...))
	case KIf:
		p.w("if ")
		p.exprNoLet(n.X, bound)
		p.w(" then ")
		p.expr(n.Y, bound)
		p.w(" else ")
		p.expr(n.Z, bound)
	case KSwitch:
		p.w("switch ")
		p.exprNoLet(n.X, bound)
		for i := range n.CaseC {
			p.w(" case ")
			p.exprNoLet(n.CaseC[i], bound)
			p.w(": ")
			p.expr(n.CaseR[i], bound)
		}
		p.w(" default ")
		p.expr(n.Z, bound)
	case KTry:
		p.w("try ")
		p.expr(n.X, bound)
		p.w(" catch ")
		p.expr(n.Y, bound)
	case KUnary:
		p.w(n.Op)
		if n.Op == "!" {
			p.postfixRecvOrNum(n.X, bound)
		} else {
			ch := n.X
			paren := extendsRight(ch) || (ch.K == KBinary && (OpPrio[ch.Op] <= prioMinus || p.o.FullParens))
			if paren {
				p.parens(ch, bound)
			} else {
				p.expr(ch, bound)
			}
		}
	case KBinary:
		p.operand(n, n.X, false, bound)
		if n.Op == "-" || n.Op == "<" || n.Op == ">" {
			p.w(" " + n.Op + " ")
		} else {
			p.w(n.Op)
		}
		p.operand(n, n.Y, true, bound)
	case KList:
		p.w("[")
		p.args(n.Args, bound)
		p.w("]")
	case KMap:
		p.w("{")
		for i, k := range n.Keys {
			if i > 0 {
				p.w(", ")
			}
			p.w(KeyLit(k) + ":")
			p.expr(n.Args[i], bound)
		}
		p.w("}")
	case KIndex:
		p.postfixRecv(n.X, bound)
		p.w("[")
		p.exprNoLet(n.Y, bound)
		p.w("]")
	case KMember:
		p.postfixRecv(n.X, bound)
		p.w("." + KeyLit(n.Name))
	case KMethod:
		p.postfixRecv(n.X, bound)
		p.w("." + KeyLit(n.Name) + "(")
		p.args(n.Args, bound)
		p.w(")")
	case KCall:
		p.postfixRecv(n.X, bound)
		p.w("(")
		p.args(n.Args, bound)
		p.w(")")
	case KStatic:
		p.w(n.Name + "(")
		p.args(n.Args, bound)
		p.w(")")
	}
}

func (p *printer) postfixRecvOrNum(n *Node, bound map[string]bool) {
	if n.K == KInt || n.K == KFloat {
		p.expr(n, bound)
		return
	}
	p.postfixRecv(n, bound)
}

// letValue: the value of a let is parsed with parseExpression (no nested let/func without brackets).
func (p *printer) letValue(n *Node, bound map[string]bool) { p.exprNoLet(n, bound) }

// exprNoLet prints in a position parsed by parseExpression: a let/func there is not allowed by
// the grammar; generators never put one there.
func (p *printer) exprNoLet(n *Node, bound map[string]bool) {
	if n.K == KLet || n.K == KFunc {
		panic("let/func in expression position")
	}
	p.expr(n, bound)
}
