package ref

// Shrink reduces a failing program: it repeatedly replaces a node by one of
// its sub-expressions or by a trivial literal while pred stays true. pred is
// called at most budget times.
func Shrink(root *Node, pred func(*Node) bool, budget int) *Node {
	calls := 0
	try := func() bool {
		if calls >= budget {
			return false
		}
		calls++
		return pred(root)
	}
	progress := true
	for progress && calls < budget {
		progress = false
		var nodes []*Node
		root.Walk(func(n *Node) { nodes = append(nodes, n) })
		for _, n := range nodes {
			if calls >= budget {
				break
			}
			saved := *n
			var cands []*Node
			for _, ch := range []*Node{n.X, n.Y, n.Z} {
				if ch != nil {
					cands = append(cands, ch)
				}
			}
			cands = append(cands, n.Args...)
			cands = append(cands, n.CaseR...)
			if n.K != KInt && n.K != KStr && n.K != KBool && n.K != KIdent && n.K != KFloat {
				cands = append(cands, &Node{K: KInt, I: 0}, &Node{K: KInt, I: 1}, &Node{K: KStr, S: "s"}, &Node{K: KBool, B: true}, &Node{K: KList})
			}
			done := false
			for _, c := range cands {
				cp := *c
				*n = cp
				if try() {
					progress = true
					done = true
					break
				}
				*n = saved
			}
			if done {
				break // node list is stale
			}
			// drop list elements / switch cases
			if n.K == KList && len(n.Args) > 0 {
				for i := range n.Args {
					na := append(append([]*Node{}, saved.Args[:i]...), saved.Args[i+1:]...)
					n.Args = na
					if try() {
						progress = true
						done = true
						break
					}
					n.Args = saved.Args
				}
				if done {
					break
				}
			}
			if n.K == KSwitch && len(n.CaseC) > 0 {
				for i := range n.CaseC {
					n.CaseC = append(append([]*Node{}, saved.CaseC[:i]...), saved.CaseC[i+1:]...)
					n.CaseR = append(append([]*Node{}, saved.CaseR[:i]...), saved.CaseR[i+1:]...)
					if try() {
						progress = true
						done = true
						break
					}
					n.CaseC, n.CaseR = saved.CaseC, saved.CaseR
				}
				if done {
					break
				}
			}
		}
	}
	return root
}

// Clone deep-copies a tree.
func (n *Node) Clone() *Node {
	if n == nil {
		return nil
	}
	c := *n
	c.X, c.Y, c.Z = n.X.Clone(), n.Y.Clone(), n.Z.Clone()
	c.Args = cloneList(n.Args)
	c.CaseC = cloneList(n.CaseC)
	c.CaseR = cloneList(n.CaseR)
	c.Params = append([]string{}, n.Params...)
	c.Keys = append([]string{}, n.Keys...)
	return &c
}

func cloneList(l []*Node) []*Node {
	if l == nil {
		return nil
	}
	out := make([]*Node, len(l))
	for i, x := range l {
		out[i] = x.Clone()
	}
	return out
}

// WellScoped reports whether every identifier of the program is bound by an
// enclosing construct or one of the given names (static scoping check).
func WellScoped(n *Node, names []string) bool {
	bound := map[string]int{"pi": 1, "true": 1, "false": 1}
	for _, x := range names {
		bound[x]++
	}
	return wellScoped(n, bound)
}

func wellScoped(n *Node, b map[string]int) bool {
	if n == nil {
		return true
	}
	with := func(names []string, f func() bool) bool {
		for _, x := range names {
			b[x]++
		}
		r := f()
		for _, x := range names {
			b[x]--
		}
		return r
	}
	all := func(l []*Node) bool {
		for _, x := range l {
			if !wellScoped(x, b) {
				return false
			}
		}
		return true
	}
	switch n.K {
	case KIdent:
		return b[n.Name] > 0
	case KLet:
		return wellScoped(n.X, b) && with([]string{n.Name}, func() bool { return wellScoped(n.Y, b) })
	case KFunc:
		return with([]string{n.Name}, func() bool {
			return with(n.Params, func() bool { return wellScoped(n.X, b) }) && wellScoped(n.Y, b)
		})
	case KClosure:
		return with(n.Params, func() bool { return wellScoped(n.X, b) })
	}
	return wellScoped(n.X, b) && wellScoped(n.Y, b) && wellScoped(n.Z, b) && all(n.Args) && all(n.CaseC) && all(n.CaseR)
}
