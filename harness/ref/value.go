package ref

import (
	"fmt"
	"math"
	"sort"
	"strconv"
	"strings"
)

// Value is one of: int64, float64, string, bool, *List, *Map, *Closure, Opaque.
type Value any

// Opaque is a string whose exact text the documentation does not determine
// (error messages handed to catch closures). Contains is a substring it must have.
type Opaque struct{ Contains string }

// Err is an error outcome. Unspec marks "the documentation does not determine
// the outcome"; it propagates through try/catch.
type Err struct {
	Msg      string
	Thrown   string // text passed through throw (if any)
	IsThrown bool
	Unspec   bool
	// Budget: the reference model gave up because the evaluation is too expensive
	Budget bool
}

func (e *Err) Error() string { return e.Msg }

func errf(f string, a ...any) *Err { return &Err{Msg: fmt.Sprintf(f, a...)} }
func unspec(f string, a ...any) *Err {
	return &Err{Msg: "unspecified: " + fmt.Sprintf(f, a...), Unspec: true}
}

// Pull yields the next element: (value, error, ok).
type Pull func() (Value, *Err, bool)

// List is a lazy, re-iterable sequence.
type List struct {
	Iter func() Pull
	// Unordered: the documentation promises no order (groupBy*/unique*): compared as a multiset.
	Unordered bool
	// Ties: ranges [from,to) whose elements may appear in any order (sort results with equal keys).
	Ties [][2]int
	// SizeHint >= 0 when the size is known without evaluation.
}

func NewList(items ...Value) *List {
	return &List{Iter: func() Pull {
		i := 0
		return func() (Value, *Err, bool) {
			if i >= len(items) {
				return nil, nil, false
			}
			v := items[i]
			i++
			return v, nil, true
		}
	}}
}

// Map is an ordered key/value map; Unordered when the iteration order is unspecified.
type Map struct {
	Keys      []string
	Vals      []Value
	Unordered bool
}

func NewMap() *Map { return &Map{} }

func (m *Map) Get(k string) (Value, bool) {
	for i, kk := range m.Keys {
		if kk == k {
			return m.Vals[i], true
		}
	}
	return nil, false
}

func (m *Map) With(k string, v Value) *Map {
	return &Map{Keys: append(append([]string{}, m.Keys...), k), Vals: append(append([]Value{}, m.Vals...), v), Unordered: m.Unordered}
}

func MapOf(kv ...any) *Map {
	m := &Map{}
	for i := 0; i+1 < len(kv); i += 2 {
		m.Keys = append(m.Keys, kv[i].(string))
		m.Vals = append(m.Vals, kv[i+1])
	}
	return m
}

// Closure is a function value.
type Closure struct {
	Params []string
	Body   *Node
	Env    *Env
	Arity  int
	Native func(in *Interp, args []Value) (Value, *Err)
}

type Env struct {
	name string
	val  Value
	next *Env
}

func (e *Env) Bind(n string, v Value) *Env { return &Env{name: n, val: v, next: e} }
func (e *Env) Lookup(n string) (Value, bool) {
	for x := e; x != nil; x = x.next {
		if x.name == n {
			return x.val, true
		}
	}
	return nil, false
}

func TypeName(v Value) string {
	switch v.(type) {
	case int64:
		return "int"
	case float64:
		return "float"
	case string:
		return "string"
	case bool:
		return "bool"
	case *List:
		return "list"
	case *Map:
		return "map"
	case *Closure:
		return "closure"
	case Opaque:
		return "opaque"
	}
	return fmt.Sprintf("%T", v)
}

// Force evaluates a list completely.
func (in *Interp) Force(l *List) ([]Value, *Err) {
	var out []Value
	p := l.Iter()
	for {
		v, e, ok := p()
		if e != nil {
			return nil, e
		}
		if !ok {
			return out, nil
		}
		out = append(out, v)
		if e := in.tick(); e != nil {
			return nil, e
		}
	}
}

func FloatStr(f float64) string { return strconv.FormatFloat(f, 'g', -1, 64) }

// ToString gives the documented string form.
func (in *Interp) ToString(v Value) (string, *Err) {
	switch t := v.(type) {
	case int64:
		return strconv.FormatInt(t, 10), nil
	case float64:
		return FloatStr(t), nil
	case string:
		return t, nil
	case bool:
		if t {
			return "true", nil
		}
		return "false", nil
	case *List:
		if t.Unordered || len(t.Ties) > 0 {
			items, e := in.Force(t)
			if e != nil {
				return "", e
			}
			if len(items) > 1 {
				return "", unspec("string form of a list whose order is unspecified")
			}
		}
		items, e := in.Force(t)
		if e != nil {
			return "", e
		}
		var sb strings.Builder
		sb.WriteString("[")
		for i, it := range items {
			if i > 0 {
				sb.WriteString(", ")
			}
			s, e := in.ToString(it)
			if e != nil {
				return "", e
			}
			sb.WriteString(s)
		}
		sb.WriteString("]")
		return sb.String(), nil
	case *Map:
		if t.Unordered && len(t.Keys) > 1 {
			return "", unspec("string form of a map whose order is unspecified")
		}
		var sb strings.Builder
		sb.WriteString("{")
		for i, k := range t.Keys {
			if i > 0 {
				sb.WriteString(", ")
			}
			sb.WriteString(k + ":")
			s, e := in.ToString(t.Vals[i])
			if e != nil {
				return "", e
			}
			sb.WriteString(s)
		}
		sb.WriteString("}")
		return sb.String(), nil
	case *Closure:
		return "", unspec("string form of a closure")
	case Opaque:
		return "", unspec("text of an error message")
	}
	return "", errf("no string form")
}

func toFloat(v Value) (float64, bool) {
	switch t := v.(type) {
	case int64:
		return float64(t), true
	case float64:
		return t, true
	}
	return 0, false
}

// floatToInt models int(f): out-of-range conversions are excluded by C01.
func floatToInt(f float64) (int64, *Err) {
	if math.IsNaN(f) || f >= 9.2e18 || f <= -9.2e18 {
		return 0, unspec("float to int conversion out of range")
	}
	return int64(f), nil
}

// Describe renders a value for reports (forces lists with a private interpreter).
func Describe(v Value) string {
	in := NewInterp()
	return in.describe(v, 0)
}

func (in *Interp) describe(v Value, d int) string {
	if d > 6 {
		return "..."
	}
	switch t := v.(type) {
	case nil:
		return "<nil>"
	case int64:
		return fmt.Sprintf("%d", t)
	case float64:
		return "float(" + FloatStr(t) + ")"
	case string:
		return strconv.Quote(t)
	case bool:
		return fmt.Sprint(t)
	case *List:
		items, e := in.Force(t)
		if e != nil {
			return "list<error: " + e.Msg + ">"
		}
		var parts []string
		for i, it := range items {
			if i >= 40 {
				parts = append(parts, fmt.Sprintf("...(%d more)", len(items)-i))
				break
			}
			parts = append(parts, in.describe(it, d+1))
		}
		s := "[" + strings.Join(parts, ", ") + "]"
		if t.Unordered {
			s = "unordered" + s
		}
		return s
	case *Map:
		var parts []string
		for i, k := range t.Keys {
			parts = append(parts, k+":"+in.describe(t.Vals[i], d+1))
		}
		if t.Unordered {
			sort.Strings(parts)
		}
		return "{" + strings.Join(parts, ", ") + "}"
	case *Closure:
		return fmt.Sprintf("closure/%d", t.Arity)
	case Opaque:
		return "opaque(contains " + strconv.Quote(t.Contains) + ")"
	}
	return fmt.Sprintf("%v", v)
}
