// Package wk is the worker-side framework: a property is a deterministic
// function from (seed, case index) to a verdict; the worker executes chunks of
// cases inside the real parser2 code and streams JSONL records that the driver
// (cmd/vcheck) aggregates. One panic/fatal error kills only this process; the
// driver attributes the death to the last begun case and restarts behind it.
package wk

import (
	"bufio"
	"encoding/binary"
	"encoding/json"
	"fmt"
	"hash/fnv"
	"math/rand/v2"
	"os"
	"runtime"
	"sort"
	"sync"
	"time"
)

// Config describes one way of launching a worker process.
type Config struct {
	Name       string            `json:"name"`
	CPUs       int               `json:"cpus"`       // size of the taskset mask, 0 = all
	GoMaxProcs int               `json:"gomaxprocs"` // 0 = default
	Race       bool              `json:"race"`
	Env        map[string]string `json:"env,omitempty"`
	Shards     int               `json:"shards"` // processes for this config (cases split between them)
}

// Plan is what the driver needs to know about a property run.
type Plan struct {
	Property   string   `json:"property"`
	Level      string   `json:"level"`
	Cases      int64    `json:"cases"`
	Chunk      int      `json:"chunk"`
	Configs    []Config `json:"configs"`
	CaseBudget float64  `json:"case_budget_s"` // watchdog per case (normal run)
	Rule       string   `json:"rule"`
	Floor      int64    `json:"floor_nontrivial"` // fewer distinct non-trivial cases => INCONCLUSIVE
	// FloorCounters: named counters that must reach the given value, otherwise the run is inconclusive
	FloorCounters map[string]int64 `json:"floor_counters,omitempty"`
	Assumptions   []string         `json:"assumptions"`
	Exhaustive    bool             `json:"exhaustive"`
	CompareRes    bool             `json:"compare_res"` // driver compares per-case result hashes across configs
	PerCase       bool             `json:"per_case"`    // always log begin per case (process-death properties)
	// HangIsViolation: a case that does not finish (even alone with 5x budget) violates the property
	// (C04, C05, C08, C12); otherwise it is counted as inconclusive (the property says nothing about time).
	HangIsViolation bool `json:"hang_is_violation"`
}

// Prop is implemented by every property.
type Prop interface {
	Plan(tier string) Plan
	// Run executes one case. It must be deterministic in (seed, index, config).
	Run(c *Case)
}

// Rec is one JSONL record.
type Rec struct {
	T       string           `json:"t"` // begin, chunk, vio, inc, sample, res, hang, known
	Case    int64            `json:"case,omitempty"`
	From    int64            `json:"from,omitempty"`
	To      int64            `json:"to,omitempty"`
	Sig     string           `json:"sig,omitempty"`
	Msg     string           `json:"msg,omitempty"`
	Detail  any              `json:"detail,omitempty"`
	Cnt     map[string]int64 `json:"cnt,omitempty"`
	Hash    uint64           `json:"hash,omitempty"`
	Config  string           `json:"config,omitempty"`
	Sample  any              `json:"sample,omitempty"`
	Elapsed float64          `json:"elapsed,omitempty"`
}

// Case is the per-case context handed to Prop.Run.
type Case struct {
	Index   int64
	Seed    int64
	Tier    string
	Config  string
	Rng     *rand.Rand
	Verbose bool

	w        *Worker
	nontriv  bool
	keys     []uint64
	violated bool
	inconcl  bool
	sample   any
	hasRes   bool
	res      uint64
	evals    int64
}

// Violation reports a violation of the property for this case.
func (c *Case) Violation(sig, msg string, detail any) {
	c.violated = true
	c.w.emit(Rec{T: "vio", Case: c.Index, Sig: sig, Msg: msg, Detail: detail, Config: c.Config})
	c.w.count("violated", 1)
}

// Inconclusive reports that the case could not be decided.
func (c *Case) Inconclusive(sig, msg string) {
	c.inconcl = true
	c.w.emit(Rec{T: "inc", Case: c.Index, Sig: sig, Msg: msg, Config: c.Config})
	c.w.count("inconclusive", 1)
}

// NonTrivial marks the case as non-trivial with the given distinctness key.
func (c *Case) NonTrivial(key uint64) {
	c.nontriv = true
	c.keys = append(c.keys, key)
}

// Evals declares that this case stands for n evaluations (default 1).
func (c *Case) Evals(n int64) { c.evals = n }

// NonTrivialN declares n distinct non-trivial sub-cases that are distinct by
// construction (exhaustive enumerations), counted without hashing.
func (c *Case) NonTrivialN(n int64) { c.w.count("nontrivial_by_construction", n) }

// Count adds to a named counter (aggregated into the evidence).
func (c *Case) Count(name string, n int64) { c.w.count(name, n) }

// Max keeps the maximum of a named gauge.
func (c *Case) Max(name string, n int64) { c.w.max(name, n) }

// Distinct adds a key to a named distinct-set counter (bounded).
func (c *Case) Distinct(name string, key uint64) { c.w.distinct(name, key) }

// Sample offers a sample of the case for the evidence file.
func (c *Case) Sample(v any) { c.sample = v }

// Result records a hash of the observable outcome, compared across configs by the driver.
func (c *Case) Result(h uint64) { c.hasRes = true; c.res = h }

// Logf prints only in verbose (replay) mode.
func (c *Case) Logf(f string, a ...any) {
	if c.Verbose {
		fmt.Fprintf(os.Stderr, f+"\n", a...)
	}
}

// Worker runs cases and writes records.
type Worker struct {
	mu       sync.Mutex
	out      *bufio.Writer
	outFile  *os.File
	keys     *os.File
	cnt      map[string]int64
	maxes    map[string]int64
	dist     map[string]map[uint64]struct{}
	samples  int
	cur      int64 // current case (for the watchdog)
	curStart time.Time
	running  bool
}

func (w *Worker) emit(r Rec) {
	w.mu.Lock()
	defer w.mu.Unlock()
	b, err := json.Marshal(r)
	if err != nil {
		b, _ = json.Marshal(Rec{T: r.T, Case: r.Case, Sig: r.Sig, Msg: r.Msg + " (detail not serialisable: " + err.Error() + ")"})
	}
	w.out.Write(b)
	w.out.WriteByte('\n')
	if r.T != "sample" && r.T != "res" {
		w.out.Flush()
	}
}

func (w *Worker) count(name string, n int64) {
	w.mu.Lock()
	w.cnt[name] += n
	w.mu.Unlock()
}

func (w *Worker) max(name string, n int64) {
	w.mu.Lock()
	if n > w.maxes[name] {
		w.maxes[name] = n
	}
	w.mu.Unlock()
}

func (w *Worker) distinct(name string, key uint64) {
	w.mu.Lock()
	m := w.dist[name]
	if m == nil {
		m = map[uint64]struct{}{}
		w.dist[name] = m
	}
	if len(m) < 200000 {
		m[key] = struct{}{}
	}
	w.mu.Unlock()
}

// CaseRng derives the deterministic PRNG of one case.
func CaseRng(prop string, seed, index int64) *rand.Rand {
	h := fnv.New64a()
	h.Write([]byte(prop))
	s1 := h.Sum64() ^ uint64(seed)*0x9E3779B97F4A7C15
	s2 := uint64(index)*0xD1B54A32D192ED03 + 0x632BE59BD9B4E019
	return rand.New(rand.NewPCG(s1, s2))
}

// Options of a worker run.
type Options struct {
	Prop       string
	Tier       string
	Seed       int64
	Config     string
	Shard      int
	NShards    int
	StartChunk int64 // first chunk index (global numbering) to consider
	From, To   int64 // explicit range (per-case mode), To exclusive; used when To > 0
	PerCase    bool
	Verbose    bool
	Out        string
	Budget     float64
}

// Run executes the worker loop.
func Run(p Prop, o Options) int {
	plan := p.Plan(o.Tier)
	var f *os.File
	var err error
	if o.Out == "" || o.Out == "-" {
		f = os.Stdout
	} else {
		f, err = os.OpenFile(o.Out, os.O_CREATE|os.O_WRONLY|os.O_APPEND, 0o644)
		if err != nil {
			fmt.Fprintln(os.Stderr, err)
			return 2
		}
		defer f.Close()
	}
	w := &Worker{out: bufio.NewWriterSize(f, 1<<16), outFile: f, cnt: map[string]int64{}, maxes: map[string]int64{}, dist: map[string]map[uint64]struct{}{}}
	if o.Out != "" && o.Out != "-" {
		w.keys, _ = os.OpenFile(o.Out+".keys", os.O_CREATE|os.O_WRONLY|os.O_APPEND, 0o644)
		if w.keys != nil {
			defer w.keys.Close()
		}
	}
	budget := o.Budget
	if budget <= 0 {
		budget = plan.CaseBudget
	}
	if budget <= 0 {
		budget = 60
	}
	// watchdog: a case that exceeds its budget produces a goroutine dump and ends the process with code 3
	go func() {
		for {
			time.Sleep(200 * time.Millisecond)
			w.mu.Lock()
			run, cur, st := w.running, w.cur, w.curStart
			w.mu.Unlock()
			if run && time.Since(st).Seconds() > budget {
				buf := make([]byte, 1<<20)
				n := runtime.Stack(buf, true)
				w.emit(Rec{T: "hang", Case: cur, Msg: string(buf[:n]), Config: o.Config, Elapsed: time.Since(st).Seconds()})
				w.out.Flush()
				os.Exit(3)
			}
		}
	}()

	perCase := o.PerCase || plan.PerCase
	var keyBuf []uint64
	runCase := func(i int64) {
		c := &Case{Index: i, Seed: o.Seed, Tier: o.Tier, Config: o.Config, Rng: CaseRng(o.Prop, o.Seed, i), Verbose: o.Verbose, w: w}
		if perCase {
			w.emit(Rec{T: "begin", Case: i, Config: o.Config})
		}
		w.mu.Lock()
		w.cur, w.curStart, w.running = i, time.Now(), true
		w.mu.Unlock()
		func() {
			defer func() {
				if r := recover(); r != nil {
					buf := make([]byte, 16384)
					n := runtime.Stack(buf, false)
					c.Violation("harness-panic", fmt.Sprintf("panic escaped into the harness: %v", r), string(buf[:n]))
				}
			}()
			p.Run(c)
		}()
		w.mu.Lock()
		w.running = false
		w.mu.Unlock()
		if c.evals <= 0 {
			c.evals = 1
		}
		w.count("evaluations", c.evals)
		if !c.violated && !c.inconcl {
			w.count("held", c.evals)
		}
		if c.nontriv {
			w.count("nontrivial", int64(len(c.keys)))
			keyBuf = append(keyBuf, c.keys...)
			if c.sample != nil && w.samples < 3 {
				w.samples++
				w.emit(Rec{T: "sample", Case: i, Sample: c.sample, Config: o.Config})
			}
		}
		if c.hasRes {
			w.emit(Rec{T: "res", Case: i, Hash: c.res, Config: o.Config})
		}
		if perCase {
			w.emit(Rec{T: "end", Case: i, Config: o.Config})
		}
	}
	flush := func(from, to int64) {
		w.mu.Lock()
		cnt := w.cnt
		w.cnt = map[string]int64{}
		for k, v := range w.maxes {
			cnt["max:"+k] = v
		}
		for k, m := range w.dist {
			// distinct sets are flushed as keys into the record (bounded), the driver unions them
			_ = m
			_ = k
		}
		w.mu.Unlock()
		if w.keys != nil && len(keyBuf) > 0 {
			b := make([]byte, 8*len(keyBuf))
			for i, k := range keyBuf {
				binary.LittleEndian.PutUint64(b[8*i:], k)
			}
			w.keys.Write(b)
		}
		keyBuf = keyBuf[:0]
		w.emit(Rec{T: "chunk", From: from, To: to, Cnt: cnt, Config: o.Config})
	}

	if o.To > 0 {
		for i := o.From; i < o.To && i < plan.Cases; i++ {
			runCase(i)
		}
		flush(o.From, o.To)
	} else {
		cs := int64(plan.Chunk)
		if cs <= 0 {
			cs = 1000
		}
		nchunks := (plan.Cases + cs - 1) / cs
		for ch := o.StartChunk; ch < nchunks; ch++ {
			if o.NShards > 1 && int(ch%int64(o.NShards)) != o.Shard {
				continue
			}
			from, to := ch*cs, (ch+1)*cs
			if to > plan.Cases {
				to = plan.Cases
			}
			w.emit(Rec{T: "cbegin", From: from, To: to, Config: o.Config})
			for i := from; i < to; i++ {
				runCase(i)
			}
			flush(from, to)
		}
	}
	// final: distinct sets
	w.mu.Lock()
	names := make([]string, 0, len(w.dist))
	for k := range w.dist {
		names = append(names, k)
	}
	sort.Strings(names)
	dist := w.dist
	w.mu.Unlock()
	for _, k := range names {
		keys := make([]uint64, 0, len(dist[k]))
		for h := range dist[k] {
			keys = append(keys, h)
		}
		w.emit(Rec{T: "dist", Sig: k, Detail: keys, Config: o.Config})
	}
	w.emit(Rec{T: "done", Config: o.Config})
	w.out.Flush()
	return 0
}

// Hash64 hashes strings.
func Hash64(parts ...string) uint64 {
	h := fnv.New64a()
	for _, p := range parts {
		h.Write([]byte(p))
		h.Write([]byte{0})
	}
	return h.Sum64()
}
