package gen

import (
	"math/rand/v2"
	"strings"

	"verif/ref"
)

// G-tree: value trees for the exporters.

// TreeOpts steers string generation.
type TreeOpts struct {
	XMLSafe  bool // only legal XML characters (no control characters besides TAB, LF, CR; no U+FFFE/U+FFFF)
	MaxDepth int
}

var hostileJSON = []string{"\\", "\"", "\\\"", "\\n", "\n", "\r", "\t", "\x00", "\x01", "\x08", "\x0b", "\x0c", "\x1f", "\x7f", "\u2028", "\u2029", "\ud7ff", "\ue000", "\ufffd", "\U0001F600", "\U0001D11E", "\u00e9", "\u65e5\u672c", "</script>", "\\u0041", "{", "}", "[", "]", ":", ",", "'", " ", "  ", "/", "\u0085", "\u00a0"}
var hostileXML = []string{"<", ">", "&", "'", "\"", "]]>", "<!--", "-->", "<![CDATA[", "&amp;", "&#65;", "&lt;", "&#60;b&#62;", "&#x3C;", "&foo;", "&nbsp;", "&;", "&#;", "&amp;lt;", "<b>", "</entry>", "</td>", "=", " ", "  ", "\t", "\n", "\r", "\r\n", "x=\"1\"", "/>", "?>", "<?xml", "é", "日本", "😀", " ", "a b", ":", "-", ".", "1", "xml", " ", "\u0085"}

// RandString builds a string from plain and hostile pieces.
func RandString(r *rand.Rand, o TreeOpts) string {
	n := r.IntN(6)
	if r.IntN(12) == 0 {
		n = 20 + r.IntN(40)
	}
	var sb strings.Builder
	for i := 0; i < n; i++ {
		switch r.IntN(4) {
		case 0:
			sb.WriteString([]string{"a", "b", "key", "x1", "Hello", "0", "-1.5", "true"}[r.IntN(8)])
		case 1:
			if !o.XMLSafe {
				sb.WriteString(hostileJSON[r.IntN(len(hostileJSON))])
			} else {
				sb.WriteString(hostileXML[r.IntN(len(hostileXML))])
			}
		case 2:
			sb.WriteString(hostileXML[r.IntN(len(hostileXML))])
		default:
			// a random rune
			var c rune
			switch r.IntN(5) {
			case 0:
				c = rune(r.IntN(128))
			case 1:
				c = rune(0x80 + r.IntN(0x780))
			case 2:
				c = rune(0x800 + r.IntN(0xF000))
			case 3:
				c = rune(0x10000 + r.IntN(0x100000))
			default:
				c = rune(0x20 + r.IntN(0x5f))
			}
			if c >= 0xD800 && c <= 0xDFFF {
				c = 'x'
			}
			if o.XMLSafe && !xmlChar(c) {
				c = '_'
			}
			sb.WriteRune(c)
		}
	}
	s := sb.String()
	if o.XMLSafe {
		var b strings.Builder
		for _, c := range s {
			if xmlChar(c) {
				b.WriteRune(c)
			}
		}
		s = b.String()
	}
	return s
}

func xmlChar(c rune) bool {
	return c == 0x9 || c == 0xA || c == 0xD || (c >= 0x20 && c <= 0xD7FF) || (c >= 0xE000 && c <= 0xFFFD) || (c >= 0x10000 && c <= 0x10FFFF)
}

// RandTree generates a value tree.
func RandTree(r *rand.Rand, o TreeOpts, d int) ref.Value {
	max := o.MaxDepth
	if max == 0 {
		max = 5
	}
	k := r.IntN(10)
	if d >= max {
		k = r.IntN(5)
	}
	if d == 0 && k < 5 {
		k = 5 + r.IntN(5)
	}
	switch k {
	case 0:
		switch r.IntN(4) {
		case 0:
			// magnitudes where a detour through float64 or an exponent format shows
			big := []int64{999999, 1000000, 1000001, 12345678, 1 << 31, 1<<53 - 1, 1 << 53, 1<<53 + 1, 999999999999999999, 1<<63 - 1, -1 << 63, -1000000, -(1<<53 + 1)}
			return big[r.IntN(len(big))]
		case 1:
			return r.Int64N(1<<62) - 1<<61
		}
		return int64(r.IntN(2000) - 1000)
	case 1:
		return []float64{0, 1.5, -2.25, 1e21, 1e-7, 123456789.125, -0.0, 1e6, 1234567, 1e20, 123456789012345678, 0.000001, 1e-5, 100, -1e6, 3}[r.IntN(16)]
	case 2:
		return r.IntN(2) == 0
	case 3, 4:
		return RandString(r, o)
	case 5, 6, 7:
		n := r.IntN(5)
		if r.IntN(15) == 0 {
			n = 0
		}
		items := make([]ref.Value, n)
		for i := range items {
			items[i] = RandTree(r, o, d+1)
		}
		return ref.NewList(items...)
	default:
		n := r.IntN(5)
		m := ref.NewMap()
		for i := 0; i < n; i++ {
			key := RandString(r, o)
			if r.IntN(3) == 0 {
				// incl. names made of letters only some of which are XML name characters, names with digits, colons, dots
				key = []string{"a", "b", "key", "k1", "x-y", "_z", "A.b", "µF", "ªb", "ºx", "Größe", "température", "日本", "ǅ", "ⅷ", "a·b", "k:1", "1a", "-a", ".a", "a.", "x_1", "ſt", "ʰ", "a\u0300"}[r.IntN(25)]
			}
			if _, dup := m.Get(key); dup {
				continue
			}
			m.Keys = append(m.Keys, key)
			m.Vals = append(m.Vals, RandTree(r, o, d+1))
		}
		return m
	}
}
