package gen

import (
	"fmt"
	"math/rand/v2"

	"verif/ref"
)

// G-pipe: list pipelines over ints: source -> lazy stages -> terminal. Every
// stage closure passes its element through the host function tick(stage, x)
// (records stage, element and goroutine) and optionally delay(x, us) /
// failAt(x, k).

type PipeOpts struct {
	MaxN      int  // largest source size
	Cost      int  // 0 all cheap, 1 all expensive, 2 one expensive stage
	DelayUs   int  // cost of an expensive element
	FailAt    int  // element value that fails in one stage (-1 none)
	FailPanic bool // the failing element raises a Go panic in a host function instead of returning an error
	ShortCirc bool // terminal from the short-circuit family only (C08)
	MaxStages int
}

type Pipe struct {
	Node     *ref.Node
	Stages   int
	N        int
	Terminal string
	Kinds    []string
}

func TickN(stage int, x *ref.Node) *ref.Node {
	return ref.Static("tick", ref.Int(int64(stage)), x)
}

// GenPipe generates a pipeline; arg "src" may be used as source when useArg.
func GenPipe(r *rand.Rand, o PipeOpts, useArg bool) *Pipe {
	p := &Pipe{}
	n := r.IntN(o.MaxN + 1)
	switch r.IntN(6) {
	case 0:
		n = r.IntN(4)
	case 1:
		n = 11 + r.IntN(5) // around the measuring window of the dependency
	}
	p.N = n
	var cur *ref.Node
	switch k := r.IntN(4); {
	case k == 0 && useArg:
		cur = ref.Id("src")
	case k == 1 && n <= 20:
		var items []*ref.Node
		for i := 0; i < n; i++ {
			items = append(items, ref.Int(int64(i)))
		}
		cur = ref.ListN(items...)
	default:
		cur = ref.Static("numbers", ref.Int(int64(n)))
	}
	nst := 1 + r.IntN(o.MaxStages)
	expensiveStage := r.IntN(nst)
	failStage := -1
	if o.FailAt >= 0 {
		failStage = r.IntN(nst)
	}
	stage := 0
	wrap := func(x *ref.Node) *ref.Node {
		// the element on its way through this stage's closure
		e := TickN(stage, x)
		if o.Cost == 1 || (o.Cost == 2 && stage == expensiveStage) {
			e = ref.Static("delay", e, ref.Int(int64(o.DelayUs)))
		}
		if stage == failStage {
			if o.FailPanic {
				e = ref.Static("panicAt", e, ref.Int(int64(o.FailAt)))
			} else {
				e = ref.Static("failAt", e, ref.Int(int64(o.FailAt)))
			}
		}
		return e
	}
	id := func(s string) *ref.Node { return ref.Id(s) }
	for stage = 0; stage < nst; stage++ {
		a, b, c3 := fmt.Sprintf("a%d", stage), fmt.Sprintf("b%d", stage), fmt.Sprintf("c%d", stage)
		kind := []string{"map", "map", "accept", "combine", "combine3", "combineN", "iir", "iirCombine", "number", "compact", "cross", "merge", "top", "skip", "fsm", "plus"}[r.IntN(16)]
		if stage == expensiveStage && o.Cost == 2 && r.IntN(3) > 0 {
			// the stages that can switch to parallel execution (the last one: a map over windows handed on by combineN)
			kind = []string{"map", "accept", "map", "accept", "map", "accept", "combineNesc"}[r.IntN(7)]
		}
		p.Kinds = append(p.Kinds, kind)
		switch kind {
		case "map":
			cur = ref.Method(cur, "map", ref.Clo([]string{a}, ref.Bin("+", wrap(id(a)), ref.Int(int64(r.IntN(3))))))
		case "accept":
			cur = ref.Method(cur, "accept", ref.Clo([]string{a}, ref.Bin("!=", ref.Bin("%", wrap(id(a)), ref.Int(int64(2+r.IntN(4)))), ref.Int(1))))
		case "combine":
			cur = ref.Method(cur, "combine", ref.Clo([]string{a, b}, ref.Bin("+", wrap(id(a)), ref.Bin("*", id(b), ref.Int(2)))))
		case "combine3":
			cur = ref.Method(cur, "combine3", ref.Clo([]string{a, b, c3}, ref.Bin("+", ref.Bin("+", wrap(id(a)), id(b)), id(c3))))
		case "combineN", "combineNesc":
			if kind == "combineNesc" || r.IntN(2) == 0 {
				// the window itself is handed on (it must stay what it was when a later stage - possibly running
				// behind, on another goroutine - looks at it)
				cur = ref.Method(cur, "combineN", ref.Int(int64(1+r.IntN(3))), ref.Clo([]string{a}, id(a)))
				cur = ref.Method(cur, "map", ref.Clo([]string{a}, ref.Bin("+", wrap(ref.Method(id(a), "first")), ref.Method(id(a), "sum"))))
			} else {
				cur = ref.Method(cur, "combineN", ref.Int(int64(1+r.IntN(3))), ref.Clo([]string{a}, ref.Bin("+", wrap(ref.Method(id(a), "first")), ref.Method(id(a), "sum"))))
			}
		case "iir":
			cur = ref.Method(cur, "iir", ref.Clo([]string{a}, wrap(id(a))), ref.Clo([]string{a, b}, ref.Bin("+", wrap(id(a)), ref.Bin("%", id(b), ref.Int(7)))))
		case "iirCombine":
			cur = ref.Method(cur, "iirCombine", ref.Clo([]string{a}, wrap(id(a))), ref.Clo([]string{a, b, c3}, ref.Bin("+", ref.Bin("+", id(a), wrap(id(b))), ref.Bin("%", id(c3), ref.Int(5)))))
		case "number":
			cur = ref.Method(cur, "number", ref.Clo([]string{a, b}, ref.Bin("+", wrap(id(b)), id(a))))
		case "compact":
			cur = ref.Method(cur, "compact", ref.Clo([]string{a, b}, ref.Bin("=", ref.Bin("%", wrap(id(a)), ref.Int(3)), ref.Bin("%", id(b), ref.Int(3)))))
		case "cross":
			if r.IntN(2) == 0 {
				// the pipeline so far is the second list: cross runs through it again for every item of the first
				// (half of the time the list that is run through again is the result of a merge, whose sources
				// are fed by goroutines that are started and stopped per run)
				if r.IntN(2) == 0 {
					cur = ref.Method(cur, "merge", ref.ListN(ref.Int(1), ref.Int(5), ref.Int(9)), ref.Clo([]string{"m" + a, "m" + b}, ref.Bin("<", id("m"+a), id("m"+b))))
				}
				cur = ref.Method(ref.ListN(ref.Int(1), ref.Int(2), ref.Int(3)), "cross", cur, ref.Clo([]string{b, a}, ref.Bin("+", ref.Bin("*", id(b), ref.Int(1000)), wrap(id(a)))))
			} else {
				cur = ref.Method(cur, "cross", ref.ListN(ref.Int(1), ref.Int(2)), ref.Clo([]string{a, b}, ref.Bin("*", wrap(id(a)), id(b))))
			}
		case "merge":
			// the other operand: stages that call their closure on the stack they are handed (number, iir, combine)
			// as well as map (own stack per worker); sometimes long enough that both producers overlap
			on := int64(r.IntN(8))
			if r.IntN(3) == 0 {
				on = int64(20 + r.IntN(60))
			}
			osrc := ref.Static("numbers", ref.Int(on))
			var other *ref.Node
			switch r.IntN(4) {
			case 0:
				other = ref.Method(osrc, "map", ref.Clo([]string{c3}, ref.Bin("*", TickN(100+stage, id(c3)), ref.Int(3))))
			case 1:
				other = ref.Method(osrc, "number", ref.Clo([]string{"d" + c3, c3}, ref.Bin("+", ref.Bin("*", TickN(100+stage, id(c3)), ref.Int(3)), ref.Bin("-", id("d"+c3), id("d"+c3)))))
			case 2:
				other = ref.Method(osrc, "iir", ref.Clo([]string{c3}, ref.Bin("*", TickN(100+stage, id(c3)), ref.Int(3))), ref.Clo([]string{c3, "d" + c3}, ref.Bin("+", ref.Bin("*", TickN(100+stage, id(c3)), ref.Int(3)), ref.Bin("-", id("d"+c3), id("d"+c3)))))
			default:
				other = ref.Method(osrc, "combine", ref.Clo([]string{c3, "d" + c3}, ref.Bin("+", ref.Bin("*", TickN(100+stage, id(c3)), ref.Int(3)), ref.Bin("-", id("d"+c3), id("d"+c3)))))
			}
			cur = ref.Method(cur, "merge", other, ref.Clo([]string{a, b}, ref.Bin("<", wrap(id(a)), id(b))))
		case "top":
			cur = ref.Method(cur, "top", ref.Int(int64(r.IntN(n+2))))
		case "skip":
			cur = ref.Method(cur, "skip", ref.Int(int64(r.IntN(4))))
		case "fsm":
			cur = ref.Method(ref.Method(cur, "fsm", ref.Clo([]string{a, b}, ref.Static("goto", ref.Bin("%", ref.Bin("+", ref.Member(id(a), "state"), wrap(id(b))), ref.Int(5))))), "map", ref.Clo([]string{c3}, ref.Member(id(c3), "state")))
		case "plus":
			cur = ref.Bin("+", cur, ref.Method(ref.Static("numbers", ref.Int(int64(r.IntN(5)))), "map", ref.Clo([]string{c3}, TickN(200+stage, id(c3)))))
		}
	}
	p.Stages = nst
	a, b := "ta", "tb"
	K := ref.Int(int64(r.IntN(n + 3)))
	terms := []string{"reduce", "mapReduce", "sum", "size", "string", "first", "last", "single", "minMax", "visit", "order", "groupByInt", "uniqueInt", "present", "indexWhere", "member", "multiUse", "eval"}
	if o.FailAt >= 0 {
		// pipelines with a failing element are consumed completely
		terms = []string{"reduce", "mapReduce", "sum", "size", "string", "last", "minMax", "visit", "order", "groupByInt", "uniqueInt", "multiUse", "eval"}
	}
	if o.ShortCirc {
		terms = []string{"first", "top-size", "present", "indexWhere", "single", "member", "multiUse-short", "top-sum"}
	}
	p.Terminal = terms[r.IntN(len(terms))]
	switch p.Terminal {
	case "reduce":
		cur = ref.Try(ref.Method(cur, "reduce", ref.Clo([]string{a, b}, ref.Bin("+", TickN(300, id(a)), id(b)))), ref.Int(-1))
	case "mapReduce":
		cur = ref.Method(cur, "mapReduce", ref.Int(0), ref.Clo([]string{a, b}, ref.Bin("+", id(a), TickN(300, id(b)))))
	case "sum":
		cur = ref.Try(ref.Method(cur, "sum"), ref.Int(-1))
	case "size":
		cur = ref.Method(cur, "size")
	case "string":
		cur = ref.Method(cur, "string")
	case "first", "last":
		cur = ref.Try(ref.Method(cur, p.Terminal), ref.Int(-1))
	case "single":
		cur = ref.Try(ref.Method(ref.Method(cur, "top", ref.Int(1)), "single"), ref.Int(-1))
	case "minMax":
		cur = ref.Method(ref.Method(cur, "minMax", ref.Clo([]string{a}, TickN(300, id(a)))), "string")
	case "visit":
		cur = ref.Method(cur, "visit", ref.Int(0), ref.Clo([]string{a, b}, ref.Bin("+", id(a), TickN(300, id(b)))))
	case "order":
		cur = ref.Method(ref.Method(cur, "order", ref.Clo([]string{a}, ref.Un("-", TickN(300, id(a))))), "string")
	case "groupByInt":
		cur = ref.Method(ref.Method(ref.Method(cur, "groupByInt", ref.Clo([]string{a}, ref.Bin("%", id(a), ref.Int(3)))), "map", ref.Clo([]string{b}, ref.Method(ref.Member(id(b), "values"), "sum"))), "sum")
		cur = ref.Try(cur, ref.Int(-1))
	case "uniqueInt":
		cur = ref.Method(ref.Method(cur, "uniqueInt", ref.Clo([]string{a}, ref.Bin("%", id(a), ref.Int(5)))), "size")
	case "present":
		cur = ref.Method(cur, "present", ref.Clo([]string{a}, ref.Bin("=", TickN(300, id(a)), K)))
	case "indexWhere":
		cur = ref.Method(cur, "indexWhere", ref.Clo([]string{a}, ref.Bin("=", TickN(300, id(a)), K)))
	case "member":
		cur = ref.Bin("~", K, cur)
	case "multiUse":
		first := ref.Method(ref.Method(id(a), "map", ref.Clo([]string{b}, TickN(300, id(b)))), "size")
		switch r.IntN(4) {
		case 0:
			// the consumer hands back lazy lists inside containers: they have to be evaluated before it ends
			first = ref.ListN(ref.Method(id(a), "map", ref.Clo([]string{b}, TickN(300, id(b)))), ref.Int(7))
		case 1:
			first = ref.MapN([]string{"l", "n"}, []*ref.Node{ref.ListN(ref.Method(id(a), "accept", ref.Clo([]string{b}, ref.Bin("!=", ref.Bin("%", TickN(300, id(b)), ref.Int(3)), ref.Int(0))))), ref.Int(1)})
		}
		cur = ref.Method(ref.Method(cur, "multiUse", ref.MapN([]string{"u", "v"}, []*ref.Node{
			ref.Clo([]string{a}, first),
			ref.Clo([]string{a}, ref.Method(id(a), "mapReduce", ref.Int(0), ref.Clo([]string{"tc", "td"}, ref.Bin("+", id("tc"), TickN(301, id("td")))))),
		})), "string")
	case "eval":
		cur = ref.Method(ref.Method(cur, "eval"), "string")
	case "top-size":
		cur = ref.Method(ref.Method(cur, "top", ref.Int(int64(1+r.IntN(5)))), "size")
	case "top-sum":
		cur = ref.Try(ref.Method(ref.Method(cur, "top", ref.Int(int64(1+r.IntN(5)))), "sum"), ref.Int(-1))
	case "multiUse-short":
		cur = ref.Method(ref.Method(cur, "multiUse", ref.MapN([]string{"u", "v"}, []*ref.Node{
			ref.Clo([]string{a}, ref.Try(ref.Method(id(a), "first"), ref.Int(-1))),
			ref.Clo([]string{a}, ref.Method(ref.Method(id(a), "top", ref.Int(int64(1+r.IntN(3)))), "size")),
		})), "string")
	}
	p.Node = cur
	return p
}
