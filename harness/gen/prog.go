// Package gen holds the workload generators. prog.go is G-prog: a type-directed
// random generator of value-language programs over the harness-owned AST
// (ref.Node). Types only steer generation towards programs that mostly
// evaluate; ill-typed programs are legal inputs too (both sides must fail).
package gen

import (
	"fmt"
	"math/rand/v2"

	"verif/ref"
)

// Ty is a generation-time type.
type Ty struct {
	K      byte // i int, f float, s string, b bool, l list, m map, c closure
	Elem   *Ty
	Fields []Field
	Params []*Ty
	Ret    *Ty
}

type Field struct {
	Name string
	T    *Ty
}

var (
	TInt   = &Ty{K: 'i'}
	TFloat = &Ty{K: 'f'}
	TStr   = &Ty{K: 's'}
	TBool  = &Ty{K: 'b'}
)

func TList(e *Ty) *Ty             { return &Ty{K: 'l', Elem: e} }
func TMap(f ...Field) *Ty         { return &Ty{K: 'm', Fields: f} }
func TFunc(ret *Ty, p ...*Ty) *Ty { return &Ty{K: 'c', Params: p, Ret: ret} }

func (t *Ty) String() string {
	switch t.K {
	case 'l':
		return "list<" + t.Elem.String() + ">"
	case 'm':
		s := "map{"
		for i, f := range t.Fields {
			if i > 0 {
				s += ","
			}
			s += f.Name + ":" + f.T.String()
		}
		return s + "}"
	case 'c':
		s := "func("
		for i, p := range t.Params {
			if i > 0 {
				s += ","
			}
			s += p.String()
		}
		return s + ")" + t.Ret.String()
	}
	return string(t.K)
}

func sameTy(a, b *Ty) bool {
	if a.K != b.K {
		return false
	}
	switch a.K {
	case 'l':
		return sameTy(a.Elem, b.Elem)
	case 'm':
		if len(a.Fields) != len(b.Fields) {
			return false
		}
		for i := range a.Fields {
			if a.Fields[i].Name != b.Fields[i].Name || !sameTy(a.Fields[i].T, b.Fields[i].T) {
				return false
			}
		}
		return true
	case 'c':
		if len(a.Params) != len(b.Params) || !sameTy(a.Ret, b.Ret) {
			return false
		}
		for i := range a.Params {
			if !sameTy(a.Params[i], b.Params[i]) {
				return false
			}
		}
		return true
	}
	return true
}

// Dials steer the generator.
type Dials struct {
	MaxDepth        int
	Budget          int
	VarLeaf         float64 // probability that a leaf is a variable when one is available
	Bind            float64 // probability of wrapping in a binding construct
	Fault           float64 // probability of an injected fault
	Method          float64 // probability of preferring built-in methods
	Lazy            float64 // probability of preferring lazy list stages
	NoClosureValues bool
	// Collide is the probability that a local (let, func, parameter) is named like a static function and that a
	// map field holding a closure is named like a map method: the nearest binding resp. the field has to win
	Collide float64
	// Host functions available as static calls: name -> (ret type, param types)
	Host map[string]*Ty
	// HostImpure lists host functions that must not be used in positions a generator wants pure
}

type binding struct {
	name string
	t    *Ty
}

type PG struct {
	R      *rand.Rand
	D      Dials
	scope  []binding
	ctr    int
	budget int
	// names declared in the current function body (innermost last); used to allow
	// shadowing across bodies while never redeclaring inside one body
	bodies []map[string]bool
	// statistics
	Stats map[string]int
}

func NewPG(r *rand.Rand, d Dials) *PG {
	if d.MaxDepth == 0 {
		d.MaxDepth = 6
	}
	if d.Budget == 0 {
		d.Budget = 70
	}
	return &PG{R: r, D: d, budget: d.Budget, Stats: map[string]int{}, bodies: []map[string]bool{{}}}
}

func (g *PG) fresh(prefix string) string {
	g.ctr++
	n := fmt.Sprintf("%s%d", prefix, g.ctr)
	g.bodies[len(g.bodies)-1][n] = true
	return n
}

// names of pure static functions of the value language (1 or 2 arguments) and of map methods
var collideStatic = []string{"sqr", "abs", "max", "min", "sqrt", "sign", "floor", "round", "string", "int", "float"}
var collideMethod = []string{"get", "size", "string", "map", "put", "isAvail", "list", "accept"}

// declares reports whether the tree contains a let, func or closure (i.e. declares a name).
func declares(n *ref.Node) bool {
	found := false
	n.Walk(func(x *ref.Node) {
		if x.K == ref.KLet || x.K == ref.KFunc || x.K == ref.KClosure {
			found = true
		}
	})
	return found
}

// callableName names a local that holds a closure or func.
func (g *PG) callableName(prefix string) string {
	if g.D.Collide > 0 && g.chance(3*g.D.Collide) {
		cur := g.bodies[len(g.bodies)-1]
		n := collideStatic[g.pick(len(collideStatic))]
		if !cur[n] {
			cur[n] = true
			g.Stats["local_named_like_static_function"]++
			return n
		}
	}
	return g.fresh(prefix)
}

// localName returns a name for a let/func/parameter in the current body: usually
// fresh, sometimes the name of a binding of an enclosing body (shadowing).
func (g *PG) localName(prefix string) string {
	cur := g.bodies[len(g.bodies)-1]
	if g.D.Collide > 0 && g.chance(g.D.Collide) {
		n := collideStatic[g.pick(len(collideStatic))]
		if !cur[n] {
			cur[n] = true
			g.Stats["local_named_like_static_function"]++
			return n
		}
	}
	if len(g.bodies) > 1 && len(g.scope) > 0 && g.chance(0.12) {
		n := g.scope[g.pick(len(g.scope))].name
		if !cur[n] {
			cur[n] = true
			g.Stats["shadowing"]++
			return n
		}
	}
	n := g.fresh(prefix)
	cur[n] = true
	return n
}

func (g *PG) pushBody() { g.bodies = append(g.bodies, map[string]bool{}) }
func (g *PG) popBody()  { g.bodies = g.bodies[:len(g.bodies)-1] }

func (g *PG) chance(p float64) bool { return g.R.Float64() < p }
func (g *PG) pick(n int) int        { return g.R.IntN(n) }

// Declare adds an argument to the scope.
func (g *PG) Declare(name string, t *Ty) {
	g.scope = append(g.scope, binding{name, t})
	g.bodies[0][name] = true
}

func (g *PG) with(bs []binding, f func() *ref.Node) *ref.Node {
	n := len(g.scope)
	g.scope = append(g.scope, bs...)
	r := f()
	g.scope = g.scope[:n]
	return r
}

func (g *PG) varsOf(t *Ty) []string {
	var out []string
	seen := map[string]bool{}
	for i := len(g.scope) - 1; i >= 0; i-- {
		b := g.scope[i]
		if seen[b.name] {
			continue // shadowed
		}
		seen[b.name] = true
		if sameTy(b.t, t) {
			out = append(out, b.name)
		}
	}
	return out
}

// RandomType draws a value type (no closures unless allowed).
func (g *PG) RandomType(d int) *Ty {
	n := 7
	if d <= 0 {
		n = 4
	}
	switch g.pick(n) {
	case 0:
		return TInt
	case 1:
		return TFloat
	case 2:
		return TStr
	case 3:
		return TBool
	case 4, 5:
		return TList(g.RandomType(d - 1))
	default:
		nf := 1 + g.pick(3)
		var fs []Field
		for i := 0; i < nf; i++ {
			fs = append(fs, Field{Name: fmt.Sprintf("k%d", i), T: g.RandomType(d - 1)})
		}
		return TMap(fs...)
	}
}

func (g *PG) scalarType() *Ty {
	return []*Ty{TInt, TFloat, TStr, TBool}[g.pick(4)]
}

var strPool = []string{"", "a", "b", "ab", "abc", "hello world", " pad ", "x,y,z", "Hé", "日本", "a\"q", "b\\s", "l1\nl2", "12", "-3", "2.5", "A=b",
	// spellings of numbers a lenient conversion would read differently
	"010", "08", "0x10", "1_000", "-012", "+5", " 7", "1e3", "0", "007", "0b11", "1.", ".5", "0.10"}

func (g *PG) literal(t *Ty, d int) *ref.Node {
	switch t.K {
	case 'i':
		switch g.pick(10) {
		case 0:
			return ref.Int(0)
		case 1:
			return ref.Int(int64(g.pick(2000)) - 1000)
		case 2:
			return ref.Int(-int64(1 + g.pick(5)))
		default:
			return ref.Int(int64(g.pick(12)))
		}
	case 'f':
		return ref.Float(float64(g.pick(81)-40) / 8)
	case 's':
		return ref.Str(strPool[g.pick(len(strPool))])
	case 'b':
		return ref.Bool(g.pick(2) == 0)
	case 'l':
		n := g.pick(5)
		if d >= g.D.MaxDepth {
			n = g.pick(3)
		}
		var items []*ref.Node
		for i := 0; i < n; i++ {
			items = append(items, g.Gen(t.Elem, d+1, true))
		}
		return ref.ListN(items...)
	case 'm':
		var keys []string
		var vals []*ref.Node
		for _, f := range t.Fields {
			keys = append(keys, f.Name)
			vals = append(vals, g.Gen(f.T, d+1, true))
		}
		return ref.MapN(keys, vals)
	case 'c':
		return g.closureLit(t, d)
	}
	panic("literal")
}

func (g *PG) closureLit(t *Ty, d int) *ref.Node {
	var ps []string
	var bs []binding
	g.pushBody()
	defer g.popBody()
	for _, pt := range t.Params {
		n := g.localName("p")
		ps = append(ps, n)
		bs = append(bs, binding{n, pt})
	}
	body := g.with(bs, func() *ref.Node { return g.Gen(t.Ret, d+1, true) })
	g.Stats["closure"]++
	return ref.Clo(ps, body)
}

func (g *PG) leaf(t *Ty, d int) *ref.Node {
	if vs := g.varsOf(t); len(vs) > 0 && g.chance(g.D.VarLeaf) {
		return ref.Id(vs[g.pick(len(vs))])
	}
	// scalar parts of variables: list element / map field
	if g.chance(g.D.VarLeaf * 0.4) {
		for _, b := range g.scope {
			if b.t.K == 'm' {
				for _, f := range b.t.Fields {
					if sameTy(f.T, t) && g.chance(0.5) {
						return ref.Member(ref.Id(b.name), f.Name)
					}
				}
			}
		}
	}
	return g.literal(t, d)
}

// Gen generates an expression of (intended) type t. letOK tells whether a let/func may start here.
func (g *PG) Gen(t *Ty, d int, letOK bool) *ref.Node {
	g.budget--
	if d >= g.D.MaxDepth || g.budget <= 0 {
		if t.K == 'c' && g.budget > -40 {
			return g.closureLit(t, g.D.MaxDepth)
		}
		if t.K == 'l' || t.K == 'm' {
			if vs := g.varsOf(t); len(vs) > 0 {
				return ref.Id(vs[g.pick(len(vs))])
			}
			return g.shallowLiteral(t)
		}
		return g.leaf(t, d)
	}
	if g.chance(g.D.Fault) {
		return g.fault(t, d, letOK)
	}
	if len(g.D.Host) > 0 && g.chance(0.12) {
		if h := g.hostOf(t); h != nil {
			return h
		}
	}
	if g.chance(g.D.Bind) {
		return g.wrap(t, d, letOK)
	}
	if g.chance(0.25) {
		return g.leaf(t, d)
	}
	return g.typed(t, d)
}

func (g *PG) shallowLiteral(t *Ty) *ref.Node {
	switch t.K {
	case 'l':
		return ref.ListN()
	case 'm':
		var keys []string
		var vals []*ref.Node
		for _, f := range t.Fields {
			keys = append(keys, f.Name)
			vals = append(vals, g.shallowLiteral(f.T))
		}
		return ref.MapN(keys, vals)
	case 'c':
		var ps []string
		for range t.Params {
			ps = append(ps, g.fresh("p"))
		}
		return ref.Clo(ps, g.shallowLiteral(t.Ret))
	}
	return g.literal(t, 99)
}

// wrap places a binding construct around / inside the expression.
func (g *PG) wrap(t *Ty, d int, letOK bool) *ref.Node {
	opts := []string{"if", "switch", "try", "apply", "mapfield", "listidx", "member", "curry", "nestarg"}
	if letOK {
		opts = append(opts, "let", "let", "let", "func", "func", "letclo")
	}
	if t.K == 'i' || t.K == 'f' {
		opts = append(opts, "minmax")
	}
	switch opts[g.pick(len(opts))] {
	case "let":
		vt := g.RandomType(1)
		val := g.Gen(vt, d+1, false)
		name := g.localName("v")
		g.Stats["let"]++
		inner := g.with([]binding{{name, vt}}, func() *ref.Node { return g.useBiased(name, vt, t, d+1, true) })
		return ref.Let(name, val, inner)
	case "letclo":
		// let bound to a closure that captures the current scope
		pt := g.scalarType()
		ft := TFunc(t, pt)
		name := g.callableName("c")
		val := g.closureLit(ft, d+1)
		g.Stats["let"]++
		inner := g.with([]binding{{name, ft}}, func() *ref.Node {
			if g.chance(0.7) {
				return ref.Call(ref.Id(name), g.Gen(pt, d+1, true))
			}
			return g.Gen(t, d+1, true)
		})
		return ref.Let(name, val, inner)
	case "func":
		return g.funcDecl(t, d)
	case "if":
		g.Stats["if"]++
		return ref.If(g.Gen(TBool, d+1, false), g.Gen(t, d+1, true), g.Gen(t, d+1, true))
	case "switch":
		g.Stats["switch"]++
		st := []*Ty{TInt, TStr, TBool}[g.pick(3)]
		n := 1 + g.pick(3)
		var cc, cr []*ref.Node
		// case expressions: literals, or computed ones (evaluated one after the other, only until one matches:
		// a later case that fails must not matter once an earlier one matched)
		computed := g.chance(0.4)
		for i := 0; i < n; i++ {
			switch {
			case computed && i > 0 && g.chance(0.3):
				g.Stats["switch_failing_later_case"]++
				cc = append(cc, g.fault(st, d+1, false))
			case computed:
				cc = append(cc, g.Gen(st, d+1, false))
			default:
				cc = append(cc, g.literal(st, d+1))
			}
			cr = append(cr, g.Gen(t, d+1, true))
		}
		sel := g.Gen(st, d+1, false)
		if computed && g.chance(0.5) && !declares(cc[0]) {
			// make the first case match (a copy would redeclare names if the expression declares any)
			sel = cc[0].Clone()
		}
		return ref.Switch(sel, cc, cr, g.Gen(t, d+1, true))
	case "try":
		g.Stats["try"]++
		var tryE *ref.Node
		if g.chance(0.5) {
			tryE = g.fault(t, d+1, true)
		} else {
			tryE = g.Gen(t, d+1, true)
		}
		var catchE *ref.Node
		switch g.pick(3) {
		case 0:
			catchE = ref.Clo([]string{g.fresh("e")}, g.Gen(t, d+1, true))
		default:
			catchE = g.Gen(t, d+1, true)
		}
		return ref.Try(tryE, catchE)
	case "apply":
		// (p -> body)(arg), 1..3 params
		n := 1 + g.pick(3)
		var pts []*Ty
		for i := 0; i < n; i++ {
			pts = append(pts, g.RandomType(1))
		}
		ft := TFunc(t, pts...)
		clo := g.closureLit(ft, d+1)
		var args []*ref.Node
		for _, pt := range pts {
			args = append(args, g.Gen(pt, d+1, true))
		}
		g.Stats["apply"]++
		return ref.Call(clo, args...)
	case "mapfield":
		// {f: p->body}.f(arg)
		pt := g.RandomType(1)
		ft := TFunc(t, pt)
		fname := g.fresh("m")
		if g.D.Collide > 0 && g.chance(3*g.D.Collide) {
			fname = collideMethod[g.pick(len(collideMethod))]
			g.Stats["field_named_like_method"]++
		}
		g.Stats["mapfield"]++
		keys := []string{fname}
		vals := []*ref.Node{g.closureLit(ft, d+1)}
		if g.chance(0.5) {
			keys = append(keys, "other")
			vals = append(vals, g.Gen(g.scalarType(), d+1, true))
		}
		return ref.Method(ref.MapN(keys, vals), fname, g.Gen(pt, d+1, true))
	case "listidx":
		n := 1 + g.pick(3)
		var items []*ref.Node
		for i := 0; i < n; i++ {
			items = append(items, g.Gen(t, d+1, true))
		}
		g.Stats["listidx"]++
		return ref.Index(ref.ListN(items...), ref.Int(int64(g.pick(n))))
	case "member":
		k := g.fresh("k")
		g.Stats["member"]++
		return ref.Member(ref.MapN([]string{"z", k}, []*ref.Node{g.Gen(g.scalarType(), d+1, true), g.Gen(t, d+1, true)}), k)
	case "curry":
		// ((a)->(b)->body)(x)(y)
		t1, t2 := g.RandomType(1), g.RandomType(1)
		ft := TFunc(TFunc(t, t2), t1)
		g.Stats["curry"]++
		return ref.Call(ref.Call(g.closureLit(ft, d+1), g.Gen(t1, d+1, true)), g.Gen(t2, d+1, true))
	case "nestarg":
		// a binding construct inside the 2nd/3rd argument of a closure call
		n := 2 + g.pick(2)
		var pts []*Ty
		for i := 0; i < n; i++ {
			pts = append(pts, g.scalarType())
		}
		ft := TFunc(t, pts...)
		clo := g.closureLit(ft, d+1)
		var args []*ref.Node
		for _, pt := range pts {
			args = append(args, g.wrap(pt, d+1, true))
		}
		g.Stats["nestarg"]++
		return ref.Call(clo, args...)
	case "minmax":
		g.Stats["staticarg"]++
		fn := []string{"max", "min"}[g.pick(2)]
		n := 2 + g.pick(2)
		var args []*ref.Node
		for i := 0; i < n; i++ {
			if g.chance(0.6) {
				args = append(args, g.wrap(t, d+1, true))
			} else {
				args = append(args, g.Gen(t, d+1, true))
			}
		}
		return ref.Static(fn, args...)
	}
	panic("wrap")
}

// useBiased generates an expression of type t that likely uses variable name (of type vt).
func (g *PG) useBiased(name string, vt, t *Ty, d int, letOK bool) *ref.Node {
	if sameTy(vt, t) && g.chance(0.3) {
		return ref.Id(name)
	}
	return g.Gen(t, d, letOK)
}

func (g *PG) funcDecl(t *Ty, d int) *ref.Node {
	name := g.callableName("f")
	g.Stats["func"]++
	if g.chance(0.5) && (t.K == 'i' || t.K == 'l' || t.K == 's') {
		// guarded recursion on a decreasing int
		n := g.fresh("n")
		ft := TFunc(t, TInt)
		var base, step *ref.Node
		bs := []binding{{n, TInt}}
		base = g.with(bs, func() *ref.Node { return g.Gen(t, d+2, true) })
		rec := ref.Call(ref.Id(name), ref.Bin("-", ref.Id(n), ref.Int(1)))
		switch t.K {
		case 'i':
			step = ref.Bin("+", rec, g.with(bs, func() *ref.Node { return g.Gen(TInt, d+2, false) }))
		case 's':
			step = ref.Bin("+", rec, g.with(bs, func() *ref.Node { return g.Gen(g.scalarType(), d+2, false) }))
		default:
			step = ref.Method(rec, "append", g.with(bs, func() *ref.Node { return g.Gen(t.Elem, d+2, true) }))
		}
		body := ref.If(ref.Bin("<=", ref.Id(n), ref.Int(0)), base, step)
		g.Stats["recursion"]++
		inner := g.with([]binding{{name, ft}}, func() *ref.Node {
			if g.chance(0.8) {
				return ref.Call(ref.Id(name), ref.Int(int64(g.pick(6))))
			}
			return g.Gen(t, d+1, true)
		})
		return ref.Func(name, []string{n}, body, inner)
	}
	np := 1 + g.pick(3)
	var ps []string
	var pts []*Ty
	var bs []binding
	for i := 0; i < np; i++ {
		pn := g.fresh("a")
		pt := g.RandomType(1)
		ps = append(ps, pn)
		pts = append(pts, pt)
		bs = append(bs, binding{pn, pt})
	}
	ft := TFunc(t, pts...)
	body := g.with(bs, func() *ref.Node { return g.Gen(t, d+1, true) })
	inner := g.with([]binding{{name, ft}}, func() *ref.Node {
		if g.chance(0.8) {
			var args []*ref.Node
			for _, pt := range pts {
				args = append(args, g.Gen(pt, d+1, true))
			}
			return ref.Call(ref.Id(name), args...)
		}
		return g.Gen(t, d+1, true)
	})
	return ref.Func(name, ps, body, inner)
}

// fault generates an expression that (probably) fails at run time.
func (g *PG) fault(t *Ty, d int, letOK bool) *ref.Node {
	g.Stats["fault"]++
	switch g.pick(9) {
	case 0:
		return ref.Static("throw", ref.Str("boom"+fmt.Sprint(g.pick(5))))
	case 1:
		return ref.Index(g.Gen(TList(t), d+1, false), ref.Int(int64(3+g.pick(5))))
	case 2:
		return ref.Bin("%", g.Gen(TInt, d+1, false), ref.Int(0))
	case 3:
		// wrong type
		return g.Gen(g.RandomType(1), d+1, letOK)
	case 4:
		return ref.Member(ref.MapN([]string{"a"}, []*ref.Node{g.Gen(t, d+1, true)}), "missing")
	case 5:
		return ref.Bin("+", g.Gen(TInt, d+1, false), g.Gen(TBool, d+1, false))
	case 6:
		if g.chance(0.5) {
			// too many arguments (all constants: the optimizer must not fold such a call to a value)
			return ref.Call(g.closureLit(TFunc(t, TInt), d+1), g.literal(TInt, 99), g.literal(TInt, 99))
		}
		return ref.Call(g.closureLit(TFunc(t, TInt), d+1)) // wrong arity
	case 7:
		return ref.Method(g.Gen(TList(TInt), d+1, false), "first")
	default:
		return ref.Bin("<", g.Gen(TStr, d+1, false), g.Gen(TInt, d+1, false))
	}
}

func (g *PG) intOrFloat() *Ty {
	if g.pick(3) == 0 {
		return TFloat
	}
	return TInt
}

func (g *PG) pred(et *Ty, d int) *ref.Node {
	return g.closureLit(TFunc(TBool, et), d)
}

// typed generates by the productions of the type.
func (g *PG) typed(t *Ty, d int) *ref.Node {
	switch t.K {
	case 'i':
		return g.genInt(d)
	case 'f':
		return g.genFloat(d)
	case 's':
		return g.genStr(d)
	case 'b':
		return g.genBool(d)
	case 'l':
		return g.genList(t, d)
	case 'm':
		return g.genMap(t, d)
	case 'c':
		if vs := g.varsOf(t); len(vs) > 0 && g.chance(0.4) {
			return ref.Id(vs[g.pick(len(vs))])
		}
		return g.closureLit(t, d)
	}
	panic("typed")
}

func (g *PG) anyList(d int) (*ref.Node, *Ty) {
	et := g.RandomType(1)
	lt := TList(et)
	return g.Gen(lt, d, false), lt
}

func (g *PG) genInt(d int) *ref.Node {
	I := func() *ref.Node { return g.Gen(TInt, d+1, false) }
	switch g.pick(24) {
	case 0, 1, 2:
		return ref.Bin([]string{"+", "-", "*"}[g.pick(3)], I(), I())
	case 3:
		return ref.Bin("%", I(), ref.Int(int64(1+g.pick(7))))
	case 4:
		return ref.Bin([]string{"<<", ">>"}[g.pick(2)], I(), ref.Int(int64(g.pick(4))))
	case 5:
		return ref.Static([]string{"binAnd", "binOr"}[g.pick(2)], I(), I())
	case 6:
		return ref.Static([]string{"abs", "sqr", "sign", "int", "round"}[g.pick(5)], I())
	case 7:
		l, _ := g.anyList(d + 1)
		return ref.Method(l, "size")
	case 8:
		return ref.Method(g.Gen(TStr, d+1, false), "len")
	case 9:
		l := g.Gen(TList(TInt), d+1, false)
		return ref.Method(l, "indexWhere", g.pred(TInt, d+1))
	case 10:
		return ref.Method(g.Gen(TList(TInt), d+1, false), []string{"sum", "min", "max", "first", "last"}[g.pick(5)])
	case 11:
		a, b := g.fresh("p"), g.fresh("p")
		body := g.with([]binding{{a, TInt}, {b, TInt}}, func() *ref.Node { return g.Gen(TInt, d+2, true) })
		return ref.Method(g.Gen(TList(TInt), d+1, false), "reduce", ref.Clo([]string{a, b}, body))
	case 12:
		et := g.RandomType(1)
		s, x := g.fresh("p"), g.fresh("p")
		body := g.with([]binding{{s, TInt}, {x, et}}, func() *ref.Node { return g.Gen(TInt, d+2, true) })
		return ref.Method(g.Gen(TList(et), d+1, false), []string{"mapReduce", "visit"}[g.pick(2)], I(), ref.Clo([]string{s, x}, body))
	case 13:
		return ref.Static([]string{"int", "round"}[g.pick(2)], g.Gen(TFloat, d+1, false))
	case 14:
		return ref.Method(g.Gen(TStr, d+1, false), "indexOf", g.Gen(TStr, d+1, false))
	case 15:
		return ref.Method(ref.Str([]string{"12", "-7", "0", "x1", ""}[g.pick(5)]), "toInt")
	case 16:
		np := 1 + g.pick(3)
		var pts []*Ty
		for i := 0; i < np; i++ {
			pts = append(pts, TInt)
		}
		return ref.Method(g.closureLit(TFunc(TInt, pts...), d+1), "args")
	case 17:
		return ref.Un("-", I())
	case 18:
		return ref.Bin("^", I(), ref.Int(int64(g.pick(4))))
	case 19:
		return ref.Method(g.Gen(TList(TInt), d+1, false), "single")
	case 20:
		return ref.Static([]string{"max", "min"}[g.pick(2)], I(), I())
	case 21:
		// invoke
		return ref.Method(g.closureLit(TFunc(TInt, TInt, TInt), d+1), "invoke", ref.ListN(I(), I()))
	case 22:
		if h := g.hostOf(TInt); h != nil {
			return h
		}
		return I()
	default:
		return ref.Index(g.Gen(TList(TInt), d+1, false), ref.Int(int64(g.pick(3))))
	}
}

func (g *PG) hostOf(t *Ty) *ref.Node {
	var names []string
	for n, ft := range g.D.Host {
		if sameTy(ft.Ret, t) {
			names = append(names, n)
		}
	}
	if len(names) == 0 {
		return nil
	}
	// deterministic order
	for i := 1; i < len(names); i++ {
		for j := i; j > 0 && names[j] < names[j-1]; j-- {
			names[j], names[j-1] = names[j-1], names[j]
		}
	}
	n := names[g.pick(len(names))]
	ft := g.D.Host[n]
	var args []*ref.Node
	for _, pt := range ft.Params {
		args = append(args, g.Gen(pt, g.D.MaxDepth-1, true))
	}
	g.Stats["host"]++
	return ref.Static(n, args...)
}

func (g *PG) genFloat(d int) *ref.Node {
	N := func() *ref.Node { return g.Gen(g.intOrFloat(), d+1, false) }
	F := func() *ref.Node { return g.Gen(TFloat, d+1, false) }
	switch g.pick(10) {
	case 0, 1:
		return ref.Bin([]string{"+", "-", "*"}[g.pick(3)], F(), N())
	case 2:
		return ref.Bin("/", N(), N())
	case 3:
		return ref.Static("sqrt", ref.Static("abs", N()))
	case 4:
		return ref.Static([]string{"float", "floor", "ceil", "trunc", "abs", "sqr"}[g.pick(6)], N())
	case 5:
		return ref.Method(g.Gen(TList(g.intOrFloat()), d+1, false), "mean")
	case 6:
		return ref.Method(ref.Str([]string{"2.5", "-1e3", "7", "x", " 1"}[g.pick(5)]), "toFloat")
	case 7:
		return ref.Un("-", F())
	case 8:
		return ref.Static([]string{"sin", "cos", "exp", "atan"}[g.pick(4)], N())
	default:
		return ref.Method(g.Gen(TList(TFloat), d+1, false), []string{"sum", "min", "max", "first", "last"}[g.pick(5)])
	}
}

func (g *PG) genStr(d int) *ref.Node {
	S := func() *ref.Node { return g.Gen(TStr, d+1, false) }
	switch g.pick(11) {
	case 0, 1:
		return ref.Bin("+", S(), g.Gen(g.RandomType(1), d+1, false))
	case 2:
		return ref.Static("string", g.Gen(g.RandomType(1), d+1, true))
	case 3:
		return ref.Method(g.Gen(g.scalarType(), d+1, false), "string")
	case 4:
		return ref.Method(S(), []string{"trim", "toLower", "toUpper", "string"}[g.pick(4)])
	case 5:
		return ref.Method(S(), "cut", ref.Int(int64(g.pick(4))), ref.Int(int64(g.pick(5))-1))
	case 6:
		return ref.Method(S(), "replace", S(), S())
	case 7:
		l, _ := g.anyList(d + 1)
		return ref.Method(l, "string")
	case 8:
		return ref.Method(S(), "behind", S())
	case 9:
		a, b := g.fresh("p"), g.fresh("p")
		body := ref.Bin("+", ref.Bin("+", ref.Id(a), ref.Str(",")), ref.Id(b))
		return ref.Method(g.Gen(TList(TStr), d+1, false), "reduce", ref.Clo([]string{a, b}, body))
	default:
		return ref.Method(g.Gen(TMap(Field{"k0", g.scalarType()}, Field{"k1", g.scalarType()}), d+1, false), "string")
	}
}

func (g *PG) genBool(d int) *ref.Node {
	switch g.pick(14) {
	case 0, 1, 2:
		t := g.intOrFloat()
		return ref.Bin([]string{"<", ">", "<=", ">=", "=", "!="}[g.pick(6)], g.Gen(t, d+1, false), g.Gen(g.intOrFloat(), d+1, false))
	case 3:
		return ref.Bin([]string{"<", ">", "<=", ">=", "=", "!="}[g.pick(6)], g.Gen(TStr, d+1, false), g.Gen(TStr, d+1, false))
	case 4:
		return ref.Bin([]string{"&", "|"}[g.pick(2)], g.Gen(TBool, d+1, false), g.Gen(TBool, d+1, false))
	case 5:
		return ref.Un("!", g.Gen(TBool, d+1, false))
	case 6:
		et := g.scalarType()
		return ref.Bin("~", g.Gen(et, d+1, false), g.Gen(TList(et), d+1, false))
	case 7:
		return ref.Bin("~", g.Gen(TStr, d+1, false), g.Gen(TStr, d+1, false))
	case 8:
		mt := TMap(Field{"k0", g.scalarType()}, Field{"k1", g.scalarType()})
		return ref.Bin("~", ref.Str([]string{"k0", "k1", "zz"}[g.pick(3)]), g.Gen(mt, d+1, false))
	case 9:
		et := g.scalarType()
		return ref.Method(g.Gen(TList(et), d+1, false), "present", g.pred(et, d+1))
	case 10:
		mt := TMap(Field{"k0", g.scalarType()}, Field{"k1", g.scalarType()})
		return ref.Method(g.Gen(mt, d+1, false), "isAvail", ref.Str([]string{"k0", "k1", "zz"}[g.pick(3)]))
	case 11:
		return ref.Method(g.Gen(TStr, d+1, false), "contains", g.Gen(TStr, d+1, false))
	case 12:
		return ref.Static([]string{"isInt", "isFloat"}[g.pick(2)], g.Gen(g.scalarType(), d+1, false))
	default:
		t := g.RandomType(1)
		return ref.Bin([]string{"=", "!="}[g.pick(2)], g.Gen(t, d+1, false), g.Gen(t, d+1, false))
	}
}

func (g *PG) eqRel(et *Ty, d int) *ref.Node {
	// an equivalence relation on et, for compact
	a, b := g.fresh("p"), g.fresh("p")
	switch et.K {
	case 'i':
		k := int64(1 + g.pick(3))
		return ref.Clo([]string{a, b}, ref.Bin("=", ref.Bin("%", ref.Id(a), ref.Int(k)), ref.Bin("%", ref.Id(b), ref.Int(k))))
	}
	return ref.Clo([]string{a, b}, ref.Bin("=", ref.Id(a), ref.Id(b)))
}

func (g *PG) genList(t *Ty, d int) *ref.Node {
	et := t.Elem
	L := func() *ref.Node { return g.Gen(t, d+1, false) }
	src := func() (*ref.Node, *Ty) {
		st := g.RandomType(1)
		if g.chance(0.5) {
			st = et
		}
		return g.Gen(TList(st), d+1, false), st
	}
	c := g.pick(30)
	switch {
	case c < 2:
		return g.literal(t, d)
	case c < 4 && et.K == 'i':
		n := int64(g.pick(8))
		if g.chance(0.15) {
			n = int64(10 + g.pick(30))
		}
		return ref.Static("numbers", ref.Int(n))
	case c < 7:
		s, st := src()
		return ref.Method(s, "map", g.closureLit(TFunc(et, st), d+1))
	case c < 9:
		return ref.Method(L(), "accept", g.pred(et, d+1))
	case c < 11:
		return ref.Method(L(), []string{"top", "skip"}[g.pick(2)], ref.Int(int64(g.pick(5))-1))
	case c == 11:
		return ref.Method(L(), "reverse")
	case c == 12:
		return ref.Method(L(), "append", g.Gen(et, d+1, true))
	case c == 13:
		return ref.Bin("+", L(), L())
	case c == 14:
		return ref.Method(L(), "set", ref.Int(int64(g.pick(3))), g.Gen(et, d+1, true))
	case c == 15:
		if et.K == 'i' || et.K == 'f' || et.K == 's' {
			return ref.Method(L(), []string{"order", "orderRev"}[g.pick(2)], g.closureLit(TFunc(et, et), d+1))
		}
		return ref.Method(L(), "eval")
	case c == 16:
		if et.K == 'i' || et.K == 'f' || et.K == 's' {
			a, b := g.fresh("p"), g.fresh("p")
			return ref.Method(L(), "orderLess", ref.Clo([]string{a, b}, ref.Bin("<", ref.Id(a), ref.Id(b))))
		}
		return ref.Method(L(), "eval")
	case c == 17:
		return ref.Method(L(), "compact", g.eqRel(et, d+1))
	case c == 18:
		s, st := src()
		return ref.Method(s, []string{"combine", "combine3"}[g.pick(2)], func() *ref.Node {
			if g.pick(2) == 0 {
				return g.closureLit(TFunc(et, st, st), d+1)
			}
			return g.closureLit(TFunc(et, st, st, st), d+1)
		}())
	case c == 19:
		s, st := src()
		return ref.Method(s, "combineN", ref.Int(int64(1+g.pick(3))), g.closureLit(TFunc(et, TList(st)), d+1))
	case c == 20:
		s1, t1 := src()
		s2, t2 := src()
		return ref.Method(s1, "cross", s2, g.closureLit(TFunc(et, t1, t2), d+1))
	case c == 21:
		a, b := g.fresh("p"), g.fresh("p")
		var less *ref.Node
		if et.K == 'i' || et.K == 'f' || et.K == 's' {
			less = ref.Clo([]string{a, b}, ref.Bin("<", ref.Id(a), ref.Id(b)))
		} else {
			less = g.closureLit(TFunc(TBool, et, et), d+1)
		}
		return ref.Method(L(), "merge", L(), less)
	case c == 22:
		s, st := src()
		return ref.Method(s, "iir", g.closureLit(TFunc(et, st), d+1), g.closureLit(TFunc(et, st, et), d+1))
	case c == 23:
		s, st := src()
		return ref.Method(s, "iirCombine", g.closureLit(TFunc(et, st), d+1), g.closureLit(TFunc(et, st, st, et), d+1))
	case c == 24:
		s, st := src()
		return ref.Method(s, "number", g.closureLit(TFunc(et, TInt, st), d+1))
	case c == 25 && et.K == 's':
		return ref.Method(g.Gen(TStr, d+1, false), "split", ref.Str([]string{",", " ", "a", "l"}[g.pick(4)]))
	case c == 26:
		return ref.Method(L(), "replaceList", g.closureLit(TFunc(t, t), d+1))
	case c == 27 && et.K == 'l':
		inner := et.Elem
		if inner.K == 'i' || inner.K == 'f' {
			src := ref.Method(g.Gen(TList(inner), d+1, false), "order", func() *ref.Node { p := g.fresh("p"); return ref.Clo([]string{p}, ref.Id(p)) }())
			p := g.fresh("p")
			return ref.Method(src, "movingWindow", ref.Clo([]string{p}, ref.Bin("*", ref.Id(p), ref.Float(0.75))))
		}
		return ref.Method(g.Gen(TList(inner), d+1, false), "movingWindowRemove", g.pred(TList(inner), d+1))
	case c == 28 && et.K == 'i':
		s, st := src()
		return ref.Method(s, "uniqueInt", g.closureLit(TFunc(TInt, st), d+1))
	case c == 29 && et.K == 's':
		s, st := src()
		return ref.Method(s, "uniqueString", g.closureLit(TFunc(g.scalarType(), st), d+1))
	}
	return ref.Method(L(), "eval")
}

func (g *PG) genMap(t *Ty, d int) *ref.Node {
	M := func() *ref.Node { return g.Gen(t, d+1, false) }
	c := g.pick(12)
	switch {
	case c < 3:
		return g.literal(t, d)
	case c == 3 && len(t.Fields) >= 2:
		// put of the first field onto a map of the remaining ones (put places the new key first)
		rest := TMap(t.Fields[1:]...)
		return ref.Method(g.Gen(rest, d+1, false), "put", ref.Str(t.Fields[0].Name), g.Gen(t.Fields[0].T, d+1, true))
	case c == 4 && len(t.Fields) >= 2:
		k := 1 + g.pick(len(t.Fields)-1)
		return ref.Bin("+", g.Gen(TMap(t.Fields[:k]...), d+1, false), g.Gen(TMap(t.Fields[k:]...), d+1, false))
	case c == 5:
		// replace with a sub-map
		k := g.pick(len(t.Fields))
		p := g.fresh("p")
		rep := g.with([]binding{{p, t}}, func() *ref.Node {
			return ref.MapN([]string{t.Fields[k].Name}, []*ref.Node{g.Gen(t.Fields[k].T, d+2, true)})
		})
		return ref.Method(M(), "replace", ref.Clo([]string{p}, rep))
	case c == 6:
		return ref.Method(M(), "eval")
	case c == 7:
		// map with identity-typed function only when all fields share a type
		all := true
		for _, f := range t.Fields {
			if !sameTy(f.T, t.Fields[0].T) {
				all = false
			}
		}
		if all {
			return ref.Method(M(), "map", g.closureLit(TFunc(t.Fields[0].T, TStr, t.Fields[0].T), d+1))
		}
		return M()
	case c == 8:
		k, v := g.fresh("p"), g.fresh("p")
		return ref.Method(M(), "accept", ref.Clo([]string{k, v}, ref.Bin("!=", ref.Id(k), ref.Str("nokey"))))
	case c == 9:
		return ref.Method(M(), "replaceMap", g.closureLit(TFunc(t, t), d+1))
	}
	return g.literal(t, d)
}

// Program is a generated program with its arguments' types.
type Program struct {
	Root     *ref.Node
	ArgNames []string
	ArgTypes []*Ty
	Result   *Ty
	Stats    map[string]int
}

// GenProgram generates a whole program with nargs arguments.
func GenProgram(r *rand.Rand, d Dials, nargs int) *Program {
	g := NewPG(r, d)
	p := &Program{}
	for i := 0; i < nargs; i++ {
		n := fmt.Sprintf("arg%d", i)
		t := g.RandomType(2)
		p.ArgNames = append(p.ArgNames, n)
		p.ArgTypes = append(p.ArgTypes, t)
		g.Declare(n, t)
	}
	p.Result = g.RandomType(2)
	p.Root = g.Gen(p.Result, 0, true)
	p.Stats = g.Stats
	return p
}

// GenValue generates a reference value of type t (for arguments).
func GenValue(r *rand.Rand, t *Ty, d int) ref.Value {
	switch t.K {
	case 'i':
		switch r.IntN(8) {
		case 0:
			return int64(0)
		case 1:
			return int64(-1)
		case 2:
			return int64(r.IntN(100000)) - 50000
		default:
			return int64(r.IntN(10))
		}
	case 'f':
		return float64(r.IntN(81)-40) / 8
	case 's':
		return strPool[r.IntN(len(strPool))]
	case 'b':
		return r.IntN(2) == 0
	case 'l':
		n := r.IntN(5)
		if r.IntN(10) == 0 {
			n = 10 + r.IntN(15)
		}
		items := make([]ref.Value, n)
		for i := range items {
			items[i] = GenValue(r, t.Elem, d+1)
		}
		return ref.NewList(items...)
	case 'm':
		m := ref.NewMap()
		for _, f := range t.Fields {
			m.Keys = append(m.Keys, f.Name)
			m.Vals = append(m.Vals, GenValue(r, f.T, d+1))
		}
		return m
	}
	panic("GenValue: closure arguments are not generated")
}
