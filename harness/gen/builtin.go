package gen

import "verif/ref"

// BuiltinCall generates a direct call of the named built-in (kind: list, map,
// string, int, float, bool, closure, global) with generated receiver and
// arguments; nil when the generator has no template for it.
func (g *PG) BuiltinCall(kind, name string, d int) *ref.Node {
	I := func() *ref.Node { return g.Gen(TInt, d+1, false) }
	F := func() *ref.Node { return g.Gen(TFloat, d+1, false) }
	S := func() *ref.Node { return g.Gen(TStr, d+1, false) }
	N := func() *ref.Node { return g.Gen(g.intOrFloat(), d+1, false) }
	et := []*Ty{TInt, TInt, TFloat, TStr, TBool, TMap(Field{"k0", TInt}, Field{"k1", TStr}), TList(TInt)}[g.pick(7)]
	L := func(t *Ty) *ref.Node { return g.Gen(TList(t), d+1, false) }
	recv := func(t *Ty) *ref.Node {
		// receivers: empty, singleton, duplicates, sorted/reversed, mixed int/float
		switch g.pick(8) {
		case 0:
			return ref.ListN()
		case 1:
			return ref.ListN(g.literal(t, 99))
		case 2:
			x := g.literal(t, 99)
			return ref.ListN(x, x, g.literal(t, 99), x)
		case 3:
			if t.K == 'i' {
				return ref.ListN(ref.Int(1), ref.Int(2), ref.Int(2), ref.Int(5), ref.Int(9))
			}
		case 4:
			if t.K == 'i' {
				return ref.ListN(ref.Int(9), ref.Int(5), ref.Int(2), ref.Int(2), ref.Int(1))
			}
		case 5:
			if t.K == 'i' || t.K == 'f' {
				return ref.ListN(ref.Int(3), ref.Float(2.5), ref.Int(-1), ref.Float(3.0))
			}
		}
		return L(t)
	}
	fn := func(ret *Ty, p ...*Ty) *ref.Node { return g.closureLit(TFunc(ret, p...), d+1) }
	smallInt := func() *ref.Node { return ref.Int(int64(g.pick(7)) - 2) }
	mt := TMap(Field{"k0", TInt}, Field{"k1", TStr}, Field{"k2", TInt})
	M := func() *ref.Node { return g.Gen(mt, d+1, false) }
	switch kind {
	case "list":
		switch name {
		case "accept", "present", "indexWhere":
			return ref.Method(recv(et), name, fn(TBool, et))
		case "map":
			return ref.Method(recv(et), name, fn(g.RandomType(1), et))
		case "reduce":
			return ref.Method(recv(et), name, fn(et, et, et))
		case "sum", "mean", "min", "max":
			t := []*Ty{TInt, TFloat, TStr}[g.pick(3)]
			if name == "mean" && t.K == 's' {
				t = TInt
			}
			return ref.Method(recv(t), name)
		case "mapReduce", "visit":
			at := g.RandomType(1)
			return ref.Method(recv(et), name, g.Gen(at, d+1, true), fn(at, at, et))
		case "minMax":
			return ref.Method(recv(et), name, fn(g.intOrFloat(), et))
		case "replaceList":
			return ref.Method(recv(et), name, fn(g.RandomType(1), TList(et)))
		case "combine":
			return ref.Method(recv(et), name, fn(g.RandomType(1), et, et))
		case "combine3":
			return ref.Method(recv(et), name, fn(g.RandomType(1), et, et, et))
		case "combineN":
			return ref.Method(recv(et), name, smallInt(), fn(g.RandomType(1), TList(et)))
		case "multiUse":
			keys := []string{"a", "b"}
			// functions that certainly read their list (one that does not costs a 5 s timeout)
			reader := func() *ref.Node {
				p := g.fresh("p")
				switch g.pick(6) {
				case 0:
					return ref.Clo([]string{p}, ref.Method(ref.Method(ref.Id(p), "map", fn(g.RandomType(1), et)), "eval"))
				case 1:
					return ref.Clo([]string{p}, ref.Method(ref.Method(ref.Id(p), "top", ref.Int(int64(1+g.pick(4)))), "size"))
				}
				return ref.Clo([]string{p}, ref.Method(ref.Id(p), []string{"size", "first", "eval", "last"}[g.pick(4)]))
			}
			vals := []*ref.Node{reader(), reader()}
			return ref.Method(recv(et), name, ref.MapN(keys, vals))
		case "groupByString", "uniqueString":
			return ref.Method(recv(et), name, fn(g.scalarType(), et))
		case "groupByInt", "uniqueInt":
			return ref.Method(recv(et), name, fn(TInt, et))
		case "groupByEqual":
			return ref.Method(recv(et), name, fn(g.RandomType(1), et))
		case "compact":
			return ref.Method(recv(et), name, g.eqRel(et, d+1))
		case "cross":
			t2 := g.RandomType(1)
			return ref.Method(recv(et), name, recv(t2), fn(g.RandomType(1), et, t2))
		case "merge":
			t := []*Ty{TInt, TFloat, TStr}[g.pick(3)]
			a, b := g.fresh("p"), g.fresh("p")
			return ref.Method(recv(t), name, recv(t), ref.Clo([]string{a, b}, ref.Bin("<", ref.Id(a), ref.Id(b))))
		case "order", "orderRev":
			return ref.Method(recv(et), name, fn([]*Ty{TInt, TFloat, TStr}[g.pick(3)], et))
		case "orderLess":
			t := []*Ty{TInt, TFloat, TStr}[g.pick(3)]
			a, b := g.fresh("p"), g.fresh("p")
			return ref.Method(recv(t), name, ref.Clo([]string{a, b}, ref.Bin([]string{"<", ">"}[g.pick(2)], ref.Id(a), ref.Id(b))))
		case "reverse", "size", "first", "single", "last", "eval", "string":
			return ref.Method(recv(et), name)
		case "append":
			return ref.Method(recv(et), name, g.Gen(et, d+1, true))
		case "iir":
			rt := g.RandomType(1)
			return ref.Method(recv(et), name, fn(rt, et), fn(rt, et, rt))
		case "iirCombine":
			rt := g.RandomType(1)
			return ref.Method(recv(et), name, fn(rt, et), fn(rt, et, et, rt))
		case "iirApply":
			rt := g.RandomType(1)
			return ref.Method(recv(et), name, ref.MapN([]string{"initial", "filter"}, []*ref.Node{fn(rt, et), fn(rt, et, et, rt)}))
		case "fsm":
			stT := TMap(Field{"state", TInt})
			p, q := g.fresh("p"), g.fresh("p")
			body := ref.Static("goto", ref.Bin("%", ref.Bin("+", ref.Member(ref.Id(p), "state"), ref.Int(1)), ref.Int(3)))
			_ = stT
			return ref.Method(recv(et), name, ref.Clo([]string{p, q}, body))
		case "top", "skip":
			return ref.Method(recv(et), name, smallInt())
		case "number":
			return ref.Method(recv(et), name, fn(g.RandomType(1), TInt, et))
		case "set":
			return ref.Method(recv(et), name, smallInt(), g.Gen(et, d+1, true))
		case "movingWindow":
			p, q := g.fresh("p"), g.fresh("p")
			src := ref.Method(recv(g.intOrFloat()), "order", ref.Clo([]string{p}, ref.Id(p)))
			return ref.Method(src, name, ref.Clo([]string{q}, ref.Bin("*", ref.Id(q), ref.Float([]float64{0.75, 0.3, 1.5}[g.pick(3)]))))
		case "movingWindowRemove":
			p := g.fresh("p")
			return ref.Method(recv(TInt), name, ref.Clo([]string{p}, ref.Bin(">", ref.Method(ref.Id(p), "size"), ref.Int(int64(1+g.pick(3))))))
		}
	case "map":
		switch name {
		case "eval", "list", "size", "string":
			return ref.Method(M(), name)
		case "accept":
			return ref.Method(M(), name, fn(TBool, TStr, TInt))
		case "map":
			return ref.Method(g.Gen(TMap(Field{"k0", TInt}, Field{"k1", TInt}), d+1, false), name, fn(g.RandomType(1), TStr, TInt))
		case "replaceMap":
			return ref.Method(M(), name, fn(g.RandomType(1), mt))
		case "isAvail":
			var a []*ref.Node
			for i := 0; i < 1+g.pick(3); i++ {
				a = append(a, ref.Str([]string{"k0", "k1", "k2", "zz", ""}[g.pick(5)]))
			}
			return ref.Method(M(), name, a...)
		case "get":
			return ref.Method(M(), name, ref.Str([]string{"k0", "k1", "k2", "zz", ""}[g.pick(5)]))
		case "put":
			return ref.Method(M(), name, ref.Str([]string{"k0", "n1", "n2", "", "a b"}[g.pick(5)]), g.Gen(g.RandomType(1), d+1, true))
		case "replace":
			p := g.fresh("p")
			keys := []string{[]string{"k0", "k2", "zz"}[g.pick(3)]}
			return ref.Method(M(), name, ref.Clo([]string{p}, ref.MapN(keys, []*ref.Node{I()})))
		case "combine":
			m2 := TMap(Field{"k0", TInt}, Field{"k1", TInt})
			return ref.Method(g.Gen(m2, d+1, false), name, g.Gen(m2, d+1, false), fn(g.RandomType(1), TInt, TInt))
		}
	case "string":
		switch name {
		case "len", "string", "trim", "toLower", "toUpper", "toFloat", "toInt":
			return ref.Method(S(), name)
		case "contains", "indexOf", "behind", "behindList":
			return ref.Method(S(), name, S())
		case "split":
			return ref.Method(S(), name, ref.Str([]string{",", " ", "a", "l", "=", "日"}[g.pick(6)]))
		case "cut":
			return ref.Method(S(), name, ref.Int(int64(g.pick(6))), ref.Int(int64(g.pick(7))-2))
		case "replace":
			return ref.Method(S(), name, S(), S())
		}
	case "int":
		return ref.Method(I(), name)
	case "float":
		return ref.Method(F(), name)
	case "bool":
		return ref.Method(g.Gen(TBool, d+1, false), name)
	case "closure":
		np := 1 + g.pick(3)
		var pts []*Ty
		var args []*ref.Node
		for i := 0; i < np; i++ {
			pts = append(pts, TInt)
			args = append(args, I())
		}
		if name == "args" {
			return ref.Method(g.closureLit(TFunc(TInt, pts...), d+1), name)
		}
		if g.pick(5) == 0 {
			args = args[1:]
		}
		return ref.Method(g.closureLit(TFunc(TInt, pts...), d+1), name, ref.ListN(args...))
	case "global":
		switch name {
		case "abs", "sign", "sqr", "float", "int", "round", "floor", "ceil", "trunc", "sqrt", "ln", "log10", "exp", "sin", "cos", "tan", "asin", "acos", "atan":
			return ref.Static(name, N())
		case "isFloat", "isInt", "string":
			return ref.Static(name, g.Gen(g.RandomType(1), d+1, true))
		case "binAnd", "binOr":
			return ref.Static(name, I(), I())
		case "numbers":
			return ref.Method(ref.Static(name, ref.Int(int64(g.pick(9))-1)), []string{"size", "sum", "string", "eval"}[g.pick(4)])
		case "goto":
			return ref.Static(name, I())
		case "min", "max":
			var a []*ref.Node
			t := []*Ty{TInt, TFloat, TStr}[g.pick(3)]
			for i := 0; i < 1+g.pick(4); i++ {
				a = append(a, g.Gen(t, d+1, true))
			}
			return ref.Static(name, a...)
		case "throw":
			return ref.Try(ref.Static(name, S()), ref.Int(1))
		}
	}
	return nil
}

// Misuse derives a misuse of a call: wrong argument type, wrong callback arity, missing/extra argument.
func (g *PG) Misuse(call *ref.Node) *ref.Node {
	c := *call
	c.Args = append([]*ref.Node{}, call.Args...)
	bad := []*ref.Node{ref.Int(3), ref.Str("x"), ref.Bool(true), ref.ListN(), ref.MapN(nil, nil), ref.Clo([]string{"z1", "z2", "z3", "z4"}, ref.Int(1)), ref.Float(1.5)}
	switch k := g.pick(4); {
	case k == 0 && len(c.Args) > 0:
		c.Args = c.Args[:len(c.Args)-1]
	case k == 1:
		c.Args = append(c.Args, bad[g.pick(len(bad))])
	case len(c.Args) > 0:
		c.Args[g.pick(len(c.Args))] = bad[g.pick(len(bad))]
	default:
		if c.K == ref.KMethod {
			c.X = bad[g.pick(4)]
		} else {
			c.Args = append(c.Args, bad[g.pick(len(bad))])
		}
	}
	return &c
}
