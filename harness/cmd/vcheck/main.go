// vcheck is the driver: it rebuilds the worker from /repo's current working
// tree (build tag verif, optionally -race), asks it for the plan of the
// property, runs worker processes (one per shard and launch configuration,
// pinned to CPU sets with taskset), survives and attributes worker deaths and
// hangs, parses race-detector logs, matches violations against
// known_findings.txt and writes evidence/<id>.json.
package main

import (
	"bufio"
	"bytes"
	"encoding/binary"
	"encoding/json"
	"flag"
	"fmt"
	"os"
	"os/exec"
	"path/filepath"
	"regexp"
	"sort"
	"strconv"
	"strings"
	"sync"
	"time"

	"verif/wk"
)

var (
	verifDir = "/verif"
	binDir   = "/verif/harness/bin"
)

type rec struct {
	T       string           `json:"t"`
	Case    int64            `json:"case"`
	From    int64            `json:"from"`
	To      int64            `json:"to"`
	Sig     string           `json:"sig"`
	Msg     string           `json:"msg"`
	Detail  json.RawMessage  `json:"detail"`
	Cnt     map[string]int64 `json:"cnt"`
	Hash    uint64           `json:"hash"`
	Config  string           `json:"config"`
	Sample  json.RawMessage  `json:"sample"`
	Elapsed float64          `json:"elapsed"`
}

type violation struct {
	Sig    string          `json:"sig"`
	Msg    string          `json:"msg"`
	Case   int64           `json:"case"`
	Config string          `json:"config"`
	Detail json.RawMessage `json:"detail,omitempty"`
	Count  int             `json:"count"`
}

type finding struct {
	prop, sig, text string
	seen            bool
}

type agg struct {
	mu             sync.Mutex
	cnt            map[string]int64
	maxes          map[string]int64
	dist           map[string]map[uint64]struct{}
	keys           map[uint64]struct{}
	keysCap        bool
	samples        []json.RawMessage
	vios           map[string]*violation // by sig
	vioOrder       []string
	incs           map[string]int
	res            map[int64]map[string]uint64
	procs          int
	deaths         int
	hangs          int
	confirmedHangs int
	raceRep        int
	raceDedup      map[string]string
	cmds           []string
}

func newAgg() *agg {
	return &agg{cnt: map[string]int64{}, maxes: map[string]int64{}, dist: map[string]map[uint64]struct{}{}, keys: map[uint64]struct{}{},
		vios: map[string]*violation{}, incs: map[string]int{}, res: map[int64]map[string]uint64{}, raceDedup: map[string]string{}}
}

func (a *agg) addVio(v violation) {
	a.mu.Lock()
	defer a.mu.Unlock()
	if ex, ok := a.vios[v.Sig]; ok {
		ex.Count++
		return
	}
	v.Count = 1
	a.vios[v.Sig] = &v
	a.vioOrder = append(a.vioOrder, v.Sig)
}

func (a *agg) absorb(r rec) {
	a.mu.Lock()
	defer a.mu.Unlock()
	switch r.T {
	case "chunk":
		for k, v := range r.Cnt {
			if strings.HasPrefix(k, "max:") {
				if v > a.maxes[k[4:]] {
					a.maxes[k[4:]] = v
				}
			} else {
				a.cnt[k] += v
			}
		}
	case "sample":
		if len(a.samples) < 8 {
			a.samples = append(a.samples, r.Sample)
		}
	case "inc":
		a.incs[r.Sig]++
	case "res":
		m := a.res[r.Case]
		if m == nil {
			m = map[string]uint64{}
			a.res[r.Case] = m
		}
		m[r.Config] = r.Hash
	case "dist":
		var ks []uint64
		json.Unmarshal(r.Detail, &ks)
		m := a.dist[r.Sig]
		if m == nil {
			m = map[uint64]struct{}{}
			a.dist[r.Sig] = m
		}
		for _, k := range ks {
			m[k] = struct{}{}
		}
	}
}

func env(extra ...string) []string {
	e := os.Environ()
	out := e[:0:0]
	for _, kv := range e {
		if strings.HasPrefix(kv, "GOFLAGS=") || strings.HasPrefix(kv, "GOPROXY=") || strings.HasPrefix(kv, "GOTOOLCHAIN=") || strings.HasPrefix(kv, "GOSUMDB=") || strings.HasPrefix(kv, "GOMAXPROCS=") || strings.HasPrefix(kv, "GORACE=") {
			continue
		}
		out = append(out, kv)
	}
	out = append(out, "GOFLAGS=-mod=mod", "GOPROXY=off")
	return append(out, extra...)
}

func build(race bool) (string, error) {
	out := filepath.Join(binDir, "vworker")
	args := []string{"build", "-tags", "verif", "-o"}
	if race {
		out += "-race"
		args = []string{"build", "-tags", "verif", "-race", "-o"}
	}
	args = append(args, out, "./cmd/vworker")
	cmd := exec.Command("go", args...)
	cmd.Dir = filepath.Join(verifDir, "harness")
	cmd.Env = env()
	b, err := cmd.CombinedOutput()
	if err != nil {
		return "", fmt.Errorf("build failed: %v\n%s", err, b)
	}
	return out, nil
}

// core allocator
type cores struct {
	mu   sync.Mutex
	cond *sync.Cond
	free []int
}

func newCores(n int) *cores {
	c := &cores{}
	c.cond = sync.NewCond(&c.mu)
	for i := 0; i < n; i++ {
		c.free = append(c.free, i)
	}
	return c
}
func (c *cores) get(n int) []int {
	c.mu.Lock()
	defer c.mu.Unlock()
	for len(c.free) < n {
		c.cond.Wait()
	}
	r := append([]int(nil), c.free[:n]...)
	c.free = c.free[n:]
	return r
}
func (c *cores) put(ids []int) {
	c.mu.Lock()
	c.free = append(c.free, ids...)
	c.mu.Unlock()
	c.cond.Broadcast()
}

var bannerRe = regexp.MustCompile(`(?m)^(fatal error: .*|panic: .*|runtime: goroutine stack exceeds.*|SIGSEGV.*|signal: .*)$`)

func tail(b []byte, n int) string {
	if len(b) > n {
		b = b[len(b)-n:]
	}
	return string(b)
}

func head(b []byte, n int) string {
	if len(b) > n {
		b = b[:n]
	}
	return string(b)
}

func deathSig(stderr []byte) string {
	m := bannerRe.Find(stderr)
	if m == nil {
		return "death:unknown"
	}
	s := string(m)
	// normalise numbers and addresses
	s = regexp.MustCompile(`0x[0-9a-f]+`).ReplaceAllString(s, "0x?")
	s = regexp.MustCompile(`\[recovered\].*`).ReplaceAllString(s, "")
	s = regexp.MustCompile(`\d+`).ReplaceAllString(s, "N")
	if len(s) > 120 {
		s = s[:120]
	}
	return "death:" + strings.TrimSpace(s)
}

type runner struct {
	prop, tier string
	seed       int64
	plan       wk.Plan
	bins       map[bool]string
	tmp        string
	cores      *cores
	a          *agg
	ncpu       int
}

func (r *runner) launch(cfg wk.Config, name string, extraArgs []string, budget float64) (recs []rec, stderr []byte, exit int, cmdline string) {
	ncores := cfg.CPUs
	if ncores <= 0 || ncores > r.ncpu {
		ncores = r.ncpu
	}
	need := ncores
	if cfg.CPUs <= 0 {
		need = r.ncpu // unpinned workers may use everything
		if cfg.Shards > 1 {
			need = 1
		}
	}
	ids := r.cores.get(need)
	defer r.cores.put(ids)
	out := filepath.Join(r.tmp, name+".jsonl")
	errf := filepath.Join(r.tmp, name+".stderr")
	os.Remove(out)
	os.Remove(out + ".keys")
	args := []string{}
	var idstr []string
	for _, id := range ids {
		idstr = append(idstr, strconv.Itoa(id))
	}
	bin := r.bins[cfg.Race]
	wargs := append([]string{"-prop", r.prop, "-tier", r.tier, "-seed", strconv.FormatInt(r.seed, 10), "-config", cfg.Name, "-out", out}, extraArgs...)
	if budget > 0 {
		wargs = append(wargs, "-budget", fmt.Sprintf("%g", budget))
	}
	var cmd *exec.Cmd
	if cfg.CPUs > 0 {
		args = append([]string{"-c", strings.Join(idstr, ","), bin}, wargs...)
		cmd = exec.Command("taskset", args...)
		cmdline = "taskset " + strings.Join(args, " ")
	} else {
		cmd = exec.Command(bin, wargs...)
		cmdline = bin + " " + strings.Join(wargs, " ")
	}
	e := []string{}
	if cfg.GoMaxProcs > 0 {
		e = append(e, "GOMAXPROCS="+strconv.Itoa(cfg.GoMaxProcs))
		cmdline = "GOMAXPROCS=" + strconv.Itoa(cfg.GoMaxProcs) + " " + cmdline
	}
	if cfg.Race {
		e = append(e, "GORACE=halt_on_error=0 log_path="+filepath.Join(r.tmp, "race."+name))
	}
	for k, v := range cfg.Env {
		e = append(e, k+"="+v)
	}
	cmd.Env = env(e...)
	ef, _ := os.Create(errf)
	cmd.Stderr = ef
	cmd.Stdout = ef
	err := cmd.Run()
	ef.Close()
	exit = 0
	if err != nil {
		if ee, ok := err.(*exec.ExitError); ok {
			exit = ee.ExitCode()
		} else {
			exit = -1
		}
	}
	stderr, _ = os.ReadFile(errf)
	recs = readRecs(out)
	// keys
	if kb, err := os.ReadFile(out + ".keys"); err == nil {
		r.a.mu.Lock()
		for i := 0; i+8 <= len(kb); i += 8 {
			if len(r.a.keys) >= 6_000_000 {
				r.a.keysCap = true
				break
			}
			r.a.keys[binary.LittleEndian.Uint64(kb[i:])] = struct{}{}
		}
		r.a.mu.Unlock()
	}
	os.Remove(out)
	os.Remove(out + ".keys")
	r.a.mu.Lock()
	r.a.procs++
	if len(r.a.cmds) < 6 {
		r.a.cmds = append(r.a.cmds, cmdline)
	}
	r.a.mu.Unlock()
	return
}

func readRecs(path string) []rec {
	f, err := os.Open(path)
	if err != nil {
		return nil
	}
	defer f.Close()
	var out []rec
	sc := bufio.NewScanner(f)
	sc.Buffer(make([]byte, 1<<20), 64<<20)
	for sc.Scan() {
		var r rec
		if json.Unmarshal(sc.Bytes(), &r) == nil {
			out = append(out, r)
		}
	}
	return out
}

// process the records of one worker process; returns (done, open chunk from/to, last begun case without end, hang record)
type procResult struct {
	done             bool
	openFrom, openTo int64
	hasOpen          bool
	lastBegin        int64
	hasBegin         bool
	hang             *rec
	lastChunkTo      int64
}

func (r *runner) digest(recs []rec) procResult {
	var pr procResult
	for i := range recs {
		rc := recs[i]
		switch rc.T {
		case "cbegin":
			pr.hasOpen, pr.openFrom, pr.openTo = true, rc.From, rc.To
		case "chunk":
			pr.hasOpen = false
			pr.lastChunkTo = rc.To
			r.a.absorb(rc)
		case "begin":
			pr.hasBegin, pr.lastBegin = true, rc.Case
		case "end":
			pr.hasBegin = false
		case "vio":
			r.a.addVio(violation{Sig: rc.Sig, Msg: rc.Msg, Case: rc.Case, Config: rc.Config, Detail: rc.Detail})
		case "hang":
			h := rc
			pr.hang = &h
		case "done":
			pr.done = true
		default:
			r.a.absorb(rc)
		}
	}
	return pr
}

// runRange executes [from,to) in per-case mode, attributing deaths and hangs case by case.
// tooManyHangs: after a dozen watchdog hits the run is cut short (it fails anyway); the
// remaining cases are reported as not executed.
func (r *runner) tooManyHangs() bool {
	r.a.mu.Lock()
	defer r.a.mu.Unlock()
	if r.a.hangs > 12 {
		r.a.incs["run cut short after more than 12 watchdog hits"] = 1
		return true
	}
	if r.a.deaths > 60 {
		r.a.incs["run cut short after more than 60 worker deaths"] = 1
		return true
	}
	return false
}

func (r *runner) runRange(cfg wk.Config, name string, from, to int64) {
	for from < to {
		if r.tooManyHangs() {
			return
		}
		recs, stderr, exit, cmdline := r.launch(cfg, name+"-pc", []string{"-from", fmt.Sprint(from), "-to", fmt.Sprint(to), "-percase"}, 0)
		pr := r.digest(recs)
		if pr.done {
			return
		}
		killer := from
		if pr.hasBegin {
			killer = pr.lastBegin
		} else if pr.hang != nil {
			killer = pr.hang.Case
		}
		r.handleDeath(cfg, name, killer, pr, stderr, exit, cmdline)
		from = killer + 1
	}
}

func (r *runner) handleDeath(cfg wk.Config, name string, killer int64, pr procResult, stderr []byte, exit int, cmdline string) {
	if pr.hang != nil {
		r.a.mu.Lock()
		r.a.hangs++
		confirmed := r.a.confirmedHangs
		r.a.mu.Unlock()
		if confirmed >= 2 {
			// two hangs are already confirmed by isolated re-runs: further watchdog hits are only counted
			r.a.mu.Lock()
			r.a.incs["watchdog hit not re-run (two hangs already confirmed in this run)"]++
			r.a.cnt["inconclusive"]++
			r.a.mu.Unlock()
			return
		}
		if !r.plan.HangIsViolation {
			// the property does not bound time (generated programs can be exponential): the case is not judged,
			// and not re-run either
			r.a.mu.Lock()
			r.a.incs[fmt.Sprintf("case %d did not finish within the watchdog budget (the property does not bound time)", killer)]++
			r.a.cnt["inconclusive"]++
			r.a.mu.Unlock()
			return
		}
		// isolated re-run with 5x budget
		b := r.plan.CaseBudget * 5
		if b <= 0 {
			b = 300
		}
		recs, _, _, cl := r.launch(cfg, name+"-iso", []string{"-from", fmt.Sprint(killer), "-to", fmt.Sprint(killer + 1), "-percase"}, b)
		p2 := r.digest(recs)
		if p2.done {
			r.a.mu.Lock()
			r.a.incs["watchdog-fired-but-isolated-rerun-finished"]++
			r.a.cnt["inconclusive"]++
			r.a.mu.Unlock()
			return
		}
		if !r.plan.HangIsViolation {
			r.a.mu.Lock()
			r.a.incs[fmt.Sprintf("case %d did not finish within the watchdog budget (the property does not bound time)", killer)]++
			r.a.cnt["inconclusive"]++
			r.a.mu.Unlock()
			return
		}
		r.a.mu.Lock()
		r.a.confirmedHangs++
		r.a.mu.Unlock()
		d, _ := json.Marshal(map[string]any{"cmd": cl, "goroutines": head([]byte(pr.hang.Msg), 20000)})
		r.a.addVio(violation{Sig: "hang", Msg: fmt.Sprintf("case %d did not finish within %.0fs, nor within %.0fs when re-run alone", killer, r.plan.CaseBudget, b), Case: killer, Config: cfg.Name, Detail: d})
		return
	}
	r.a.mu.Lock()
	r.a.deaths++
	r.a.mu.Unlock()
	sig := deathSig(stderr)
	d, _ := json.Marshal(map[string]any{"cmd": cmdline, "exit": exit, "stderr_head": head(stderr, 6000), "stderr_tail": tail(stderr, 3000)})
	r.a.addVio(violation{Sig: sig, Msg: fmt.Sprintf("worker process died (exit %d) while executing case %d", exit, killer), Case: killer, Config: cfg.Name, Detail: d})
}

func (r *runner) runShard(cfg wk.Config, shard int) {
	name := fmt.Sprintf("%s-%d", cfg.Name, shard)
	start := int64(0)
	hangsHere := 0
	cs := int64(r.plan.Chunk)
	if cs <= 0 {
		cs = 1000
	}
	for {
		if r.tooManyHangs() {
			return
		}
		recs, stderr, exit, cmdline := r.launch(cfg, name, []string{"-shard", fmt.Sprint(shard), "-nshards", fmt.Sprint(cfg.Shards), "-startchunk", fmt.Sprint(start)}, 0)
		pr := r.digest(recs)
		if pr.done {
			return
		}
		if !pr.hasOpen {
			// died outside of any chunk (start-up failure): report and stop this shard
			d, _ := json.Marshal(map[string]any{"cmd": cmdline, "exit": exit, "stderr_tail": tail(stderr, 4000)})
			r.a.addVio(violation{Sig: "worker-startup", Msg: "worker died outside of any case", Config: cfg.Name, Detail: d})
			return
		}
		if pr.hang != nil {
			hangsHere++
			if hangsHere > 3 {
				r.a.mu.Lock()
				r.a.incs[fmt.Sprintf("shard %s stopped after %d watchdog hits", name, hangsHere)]++
				r.a.mu.Unlock()
				return
			}
		}
		if r.plan.PerCase || pr.hang != nil {
			killer := pr.openFrom
			if pr.hang != nil {
				killer = pr.hang.Case
			} else if pr.hasBegin {
				killer = pr.lastBegin
			}
			r.handleDeath(cfg, name, killer, pr, stderr, exit, cmdline)
			// counters of the partially executed chunk are lost; re-run the rest of the chunk
			r.runRange(cfg, name, killer+1, pr.openTo)
		} else {
			// find the killer by re-running the chunk case by case
			r.runRange(cfg, name, pr.openFrom, pr.openTo)
		}
		start = pr.openFrom/cs + 1
	}
}

var raceFrameRe = regexp.MustCompile(`(?m)^\s+(\S+)\(.*\)\s*\n\s+(\S+):(\d+)`)

func (r *runner) parseRaceLogs() {
	files, _ := filepath.Glob(filepath.Join(r.tmp, "race.*"))
	for _, f := range files {
		b, err := os.ReadFile(f)
		if err != nil {
			continue
		}
		blocks := bytes.Split(b, []byte("=================="))
		for _, bl := range blocks {
			if !bytes.Contains(bl, []byte("WARNING: DATA RACE")) {
				continue
			}
			r.a.mu.Lock()
			r.a.raceRep++
			r.a.mu.Unlock()
			// split into the two access stacks
			txt := string(bl)
			parts := regexp.MustCompile(`(?m)^(Read at|Write at|Previous read at|Previous write at|Goroutine \d+|Atomic).*$`).Split(txt, -1)
			var tops []string
			for _, p := range parts[1:] {
				if len(tops) == 2 {
					break
				}
				// first frame within parser2/iterator packages, and outermost such frame
				ms := raceFrameRe.FindAllStringSubmatch(p, -1)
				first, outer := "", ""
				for _, m := range ms {
					fn := m[1]
					if strings.Contains(fn, "hneemann/parser2") || strings.Contains(fn, "hneemann/iterator") {
						if first == "" {
							first = fn
						}
						outer = fn
					}
				}
				if first == "" {
					continue
				}
				tops = append(tops, shortFn(first)+"<"+shortFn(outer))
			}
			if len(tops) == 0 {
				continue // no parser2/iterator frame: not ours (harness bug would show as harness frames; still report below)
			}
			sort.Strings(tops)
			sig := "race:" + strings.Join(tops, "|")
			d, _ := json.Marshal(map[string]any{"report": head([]byte(txt), 12000), "log": filepath.Base(f)})
			r.a.addVio(violation{Sig: sig, Msg: "race detector report", Config: filepath.Base(f), Detail: d})
		}
	}
}

// printable keeps the report lines free of control characters.
func printable(s string) string {
	var sb strings.Builder
	for _, r := range s {
		if r == '\n' || r == '\t' {
			sb.WriteRune(' ')
		} else if r < 0x20 || r == 0x7f || r == 0xfffd {
			sb.WriteString(fmt.Sprintf("\\x%02x", r))
		} else {
			sb.WriteRune(r)
		}
	}
	return sb.String()
}

func shortFn(s string) string {
	s = strings.TrimPrefix(s, "github.com/hneemann/")
	s = regexp.MustCompile(`\.func\d+(\.\d+)*`).ReplaceAllString(s, ".func")
	s = regexp.MustCompile(`\[.*\]`).ReplaceAllString(s, "")
	return s
}

func loadFindings(prop string) []*finding {
	var out []*finding
	b, err := os.ReadFile(filepath.Join(verifDir, "known_findings.txt"))
	if err != nil {
		return nil
	}
	for _, ln := range strings.Split(string(b), "\n") {
		ln = strings.TrimSpace(ln)
		if !strings.HasPrefix(ln, "finding:") {
			continue
		}
		rest := strings.TrimSpace(strings.TrimPrefix(ln, "finding:"))
		// finding: property=C12 sig=<sig> :: text
		var f finding
		parts := strings.SplitN(rest, "::", 2)
		if len(parts) == 2 {
			f.text = strings.TrimSpace(parts[1])
		}
		hd := strings.TrimSpace(parts[0])
		if !strings.HasPrefix(hd, "property=") {
			continue
		}
		sp := strings.SplitN(hd, " ", 2)
		f.prop = strings.TrimPrefix(sp[0], "property=")
		if len(sp) == 2 {
			f.sig = strings.TrimSpace(strings.TrimPrefix(strings.TrimSpace(sp[1]), "sig="))
		}
		if f.prop == prop {
			out = append(out, &f)
		}
	}
	return out
}

func main() {
	prop := flag.String("prop", "", "property id")
	tier := flag.String("tier", "quick", "quick|thorough")
	keep := flag.Bool("keep", false, "keep temp dir")
	flag.Parse()
	if v := os.Getenv("VERIF_DIR"); v != "" {
		verifDir = v
		binDir = filepath.Join(v, "harness", "bin")
	}
	seed := int64(1)
	if s := os.Getenv("VERIF_SEED"); s != "" {
		if v, err := strconv.ParseInt(s, 10, 64); err == nil {
			seed = v
		}
	}
	t0 := time.Now()
	os.MkdirAll(binDir, 0o755)
	os.MkdirAll(filepath.Join(verifDir, "evidence"), 0o755)
	evPath := filepath.Join(verifDir, "evidence", *prop+".json")
	os.Remove(evPath)

	fail := func(msg string) {
		fmt.Println("INCONCLUSIVE property=" + *prop + " " + msg)
		os.Exit(2)
	}
	bins := map[bool]string{}
	b, err := build(false)
	if err != nil {
		fail(err.Error())
	}
	bins[false] = b
	// plan
	pc := exec.Command(b, "-prop", *prop, "-tier", *tier, "-plan")
	pc.Env = env()
	pb, err := pc.Output()
	if err != nil {
		fail("cannot get plan: " + err.Error())
	}
	var plan wk.Plan
	if err := json.Unmarshal(pb, &plan); err != nil {
		fail("bad plan: " + err.Error())
	}
	needRace := false
	for _, c := range plan.Configs {
		if c.Race {
			needRace = true
		}
	}
	if needRace {
		rb, err := build(true)
		if err != nil {
			fail(err.Error())
		}
		bins[true] = rb
	}
	tmp, err := os.MkdirTemp("", "vcheck-"+*prop+"-")
	if err != nil {
		fail(err.Error())
	}
	if !*keep {
		defer os.RemoveAll(tmp)
	}
	ncpu := 16
	if out, err := exec.Command("nproc").Output(); err == nil {
		if n, err := strconv.Atoi(strings.TrimSpace(string(out))); err == nil && n > 0 {
			ncpu = n
		}
	}
	r := &runner{prop: *prop, tier: *tier, seed: seed, plan: plan, bins: bins, tmp: tmp, cores: newCores(ncpu), a: newAgg(), ncpu: ncpu}
	var wg sync.WaitGroup
	for _, cfg := range plan.Configs {
		if cfg.Shards <= 0 {
			cfg.Shards = 1
		}
		for s := 0; s < cfg.Shards; s++ {
			wg.Add(1)
			go func(cfg wk.Config, s int) {
				defer wg.Done()
				r.runShard(cfg, s)
			}(cfg, s)
		}
	}
	wg.Wait()
	if needRace {
		r.parseRaceLogs()
	}
	a := r.a
	// cross-config result comparison
	resCompared, resMismatch := 0, 0
	if plan.CompareRes {
		var cases []int64
		for c := range a.res {
			cases = append(cases, c)
		}
		sort.Slice(cases, func(i, j int) bool { return cases[i] < cases[j] })
		for _, c := range cases {
			m := a.res[c]
			if len(m) < 2 {
				continue
			}
			resCompared++
			var first uint64
			var fc string
			i := 0
			names := make([]string, 0, len(m))
			for n := range m {
				names = append(names, n)
			}
			sort.Strings(names)
			for _, n := range names {
				h := m[n]
				if i == 0 {
					first, fc = h, n
				} else if h != first {
					resMismatch++
					d, _ := json.Marshal(map[string]any{"case": c, "configs": m})
					a.addVio(violation{Sig: "schedule-dependent-result", Msg: fmt.Sprintf("case %d: outcome under config %s differs from config %s", c, n, fc), Case: c, Config: n, Detail: d})
					break
				}
				i++
			}
		}
	}

	findings := loadFindings(*prop)
	os.MkdirAll(filepath.Join(verifDir, "replay", *prop), 0o755)
	if old, _ := filepath.Glob(filepath.Join(verifDir, "replay", *prop, fmt.Sprintf("seed%d-%s-*", seed, *tier))); len(old) > 0 {
		for _, f := range old {
			os.Remove(f)
		}
	}
	var unmatched []*violation
	known := 0
	for _, sig := range a.vioOrder {
		v := a.vios[sig]
		matched := false
		for _, f := range findings {
			if f.sig == v.Sig {
				matched = true
				if !f.seen {
					f.seen = true
					fmt.Printf("KNOWN-FINDING: property=%s %s [sig=%s, %d occurrence(s) this run]\n", *prop, f.text, f.sig, v.Count)
				}
			}
		}
		if matched {
			known += v.Count
		} else {
			unmatched = append(unmatched, v)
		}
	}
	nvio := 0
	for i, v := range unmatched {
		nvio += v.Count
		if i >= 25 {
			continue
		}
		rp := filepath.Join(verifDir, "replay", *prop, fmt.Sprintf("seed%d-%s-case%d-%03d.json", seed, *tier, v.Case, i))
		rb, _ := json.MarshalIndent(map[string]any{
			"property": *prop, "tier": *tier, "seed": seed, "case": v.Case, "config": v.Config, "sig": v.Sig, "msg": v.Msg, "occurrences": v.Count,
			"replay_cmd": fmt.Sprintf("cd /verif && ./check.sh replay %s %d %d", *prop, seed, v.Case),
			"detail":     v.Detail,
		}, "", " ")
		os.WriteFile(rp, rb, 0o644)
		fmt.Printf("VIOLATION property=%s replay=%s\n", *prop, rp)
		fmt.Printf("  sig=%s case=%d config=%s x%d: %s\n", v.Sig, v.Case, v.Config, v.Count, printable(head([]byte(v.Msg), 600)))
	}

	distinct := int64(len(a.keys)) + a.cnt["nontrivial_by_construction"]
	cov := map[string]any{
		"evaluations":         a.cnt["evaluations"],
		"distinct_nontrivial": distinct,
		"rule":                plan.Rule,
		"samples":             a.samples,
		"verdicts": map[string]int64{"held": a.cnt["held"], "violated_cases": a.cnt["violated"], "inconclusive": a.cnt["inconclusive"],
			"known_finding_occurrences": int64(known), "unlisted_violation_occurrences": int64(nvio)},
		"worker_processes": a.procs, "worker_deaths": a.deaths, "watchdog_hangs": a.hangs,
		"worker_cmds": a.cmds, "planned_cases": plan.Cases,
	}
	if a.keysCap {
		cov["distinct_note"] = "distinct count capped at 6,000,000 hashed keys (lower bound)"
	}
	if plan.Exhaustive && nvio == 0 && a.deaths == 0 && a.cnt["evaluations"] >= plan.Cases {
		cov["exhaustive"] = true
	}
	counters := map[string]int64{}
	for k, v := range a.cnt {
		switch k {
		case "evaluations", "held", "violated", "inconclusive", "nontrivial", "nontrivial_by_construction":
		default:
			counters[k] = v
		}
	}
	for k, v := range a.maxes {
		counters["max_"+k] = v
	}
	for k, m := range a.dist {
		counters["distinct_"+k] = int64(len(m))
	}
	cov["counters"] = counters
	if len(a.incs) > 0 {
		cov["inconclusive_reasons"] = a.incs
	}
	if needRace {
		cov["race_reports_total"] = a.raceRep
		cov["race_reports_distinct_signatures_in_parser2_or_iterator"] = func() int {
			n := 0
			for s := range a.vios {
				if strings.HasPrefix(s, "race:") {
					n++
				}
			}
			return n
		}()
	}
	if plan.CompareRes {
		cov["cross_config_comparisons"] = resCompared
		cov["cross_config_mismatches"] = resMismatch
	}
	ev := map[string]any{
		"property_id": *prop, "tier": *tier, "seed": seed, "level": plan.Level, "coverage": cov,
		"assumptions": plan.Assumptions, "wall_s": time.Since(t0).Seconds(), "violations": nvio,
	}
	inconclusive := ""
	if distinct < plan.Floor {
		inconclusive = fmt.Sprintf("only %d distinct non-trivial cases observed (floor %d)", distinct, plan.Floor)
	}
	for k, fl := range plan.FloorCounters {
		got := counters[k]
		if got < fl {
			inconclusive += fmt.Sprintf(" counter %s=%d below floor %d;", k, got, fl)
		}
	}
	if a.cnt["evaluations"] == 0 {
		inconclusive += " no case executed;"
	}
	if len(a.samples) == 0 {
		a.samples = append(a.samples, json.RawMessage(`"no sample recorded"`))
		cov["samples"] = a.samples
	}
	if inconclusive != "" {
		cov["inconclusive"] = inconclusive
	}
	eb, _ := json.MarshalIndent(ev, "", " ")
	os.WriteFile(evPath, eb, 0o644)
	fmt.Printf("property=%s tier=%s seed=%d evaluations=%d distinct_nontrivial=%d held=%d inconclusive=%d known=%d violations=%d deaths=%d wall=%.1fs\n",
		*prop, *tier, seed, a.cnt["evaluations"], distinct, a.cnt["held"], a.cnt["inconclusive"], known, nvio, a.deaths, time.Since(t0).Seconds())
	if nvio > 0 {
		os.Exit(1)
	}
	if inconclusive != "" {
		fmt.Println("INCONCLUSIVE property=" + *prop + " " + inconclusive)
		os.Exit(2)
	}
}
