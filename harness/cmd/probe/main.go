package main

import (
	"fmt"
	"os"

	"github.com/hneemann/parser2/funcGen"
	"github.com/hneemann/parser2/value"
)

func main() {
	g := value.New()
	src := os.Args[1]
	f, _, err := g.Generate(src, "a")
	if err != nil {
		fmt.Println("generate error:", err)
		return
	}
	v, err := f.Eval(value.Int(1))
	if err != nil {
		s := err.Error()
		if len(s) > 300 {
			s = s[:300]
		}
		fmt.Println("eval error:", s)
		return
	}
	s, err := v.ToString(funcGen.NewEmptyStack[value.Value]())
	fmt.Println("value:", s, err)
}
