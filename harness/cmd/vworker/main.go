// vworker links the real parser2 (build tag verif) and executes property cases.
package main

import (
	"encoding/json"
	"flag"
	"fmt"
	"os"

	"verif/props"
	"verif/wk"
)

func main() {
	var o wk.Options
	plan := flag.Bool("plan", false, "print the plan as JSON")
	one := flag.Int64("case", -1, "run a single case verbosely (replay)")
	flag.StringVar(&o.Prop, "prop", "", "property id")
	flag.StringVar(&o.Tier, "tier", "quick", "tier")
	flag.Int64Var(&o.Seed, "seed", 1, "seed")
	flag.StringVar(&o.Config, "config", "default", "launch configuration name")
	flag.IntVar(&o.Shard, "shard", 0, "shard")
	flag.IntVar(&o.NShards, "nshards", 1, "number of shards")
	flag.Int64Var(&o.StartChunk, "startchunk", 0, "first chunk")
	flag.Int64Var(&o.From, "from", 0, "first case (range mode)")
	flag.Int64Var(&o.To, "to", 0, "end case, exclusive (range mode)")
	flag.BoolVar(&o.PerCase, "percase", false, "log begin/end per case")
	flag.BoolVar(&o.Verbose, "v", false, "verbose")
	flag.StringVar(&o.Out, "out", "-", "output file")
	flag.Float64Var(&o.Budget, "budget", 0, "per-case watchdog seconds")
	flag.Parse()
	p, ok := props.Registry[o.Prop]
	if !ok {
		fmt.Fprintln(os.Stderr, "unknown property", o.Prop)
		os.Exit(2)
	}
	if *plan {
		pl := p.Plan(o.Tier)
		pl.Property = o.Prop
		b, _ := json.Marshal(pl)
		os.Stdout.Write(b)
		return
	}
	if *one >= 0 {
		o.From, o.To, o.PerCase, o.Verbose = *one, *one+1, true, true
	}
	os.Exit(wk.Run(p, o))
}
