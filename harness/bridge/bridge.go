// Package bridge converts between reference-model values and real parser2
// values and compares outcomes.
package bridge

import (
	"fmt"
	"math"
	"regexp"
	"sort"
	"strconv"
	"strings"

	"github.com/hneemann/iterator"
	"github.com/hneemann/parser2/funcGen"
	"github.com/hneemann/parser2/listMap"
	"github.com/hneemann/parser2/value"

	"verif/ref"
)

// Variant selects the representation used for lists and maps when building real values.
type Variant struct {
	LazyLists bool // lists as lazy iterables instead of slices
	MapKind   int  // 0 literal (list map), 1 real hash map, 2 chain of put-wrappers, 3 merge-wrapper, 4 replace-wrapper
}

// ToReal builds the real value for a reference value (closures are not supported).
func ToReal(v ref.Value, va Variant) value.Value {
	switch t := v.(type) {
	case int64:
		return value.Int(t)
	case float64:
		return value.Float(t)
	case string:
		return value.String(t)
	case bool:
		return value.Bool(t)
	case *ref.List:
		items, e := ref.NewInterp().Force(t)
		if e != nil {
			panic("ToReal: failing list")
		}
		rs := make([]value.Value, len(items))
		for i, it := range items {
			rs[i] = ToReal(it, va)
		}
		if va.LazyLists {
			return value.NewListFromIterable(func(st funcGen.Stack[value.Value]) iterator.Producer[value.Value] {
				return func(yield iterator.Consumer[value.Value]) {
					for _, r := range rs {
						if !yield(r, nil) {
							return
						}
					}
				}
			})
		}
		return value.NewList(rs...)
	case *ref.Map:
		return RealMap(t, va)
	}
	panic(fmt.Sprintf("ToReal: unsupported %T", v))
}

// RealMap builds a real map in the requested representation.
func RealMap(m *ref.Map, va Variant) value.Map {
	n := len(m.Keys)
	vals := make([]value.Value, n)
	for i := range m.Vals {
		vals[i] = ToReal(m.Vals[i], va)
	}
	lit := func(from, to int) value.Map {
		lm := listMap.New[value.Value](to - from)
		for i := from; i < to; i++ {
			lm = lm.Append(m.Keys[i], vals[i])
		}
		return value.NewMap(lm)
	}
	st := funcGen.NewEmptyStack[value.Value]()
	switch va.MapKind {
	case 1:
		rm := value.RealMap{}
		for i, k := range m.Keys {
			rm[k] = vals[i]
		}
		return value.NewMap(rm)
	case 2:
		cur := lit(0, 0)
		for i := n - 1; i >= 0; i-- {
			s := funcGen.NewStack[value.Value](cur, value.String(m.Keys[i]), vals[i])
			nm, err := cur.PutM(s)
			if err != nil {
				panic(err)
			}
			cur = nm
		}
		return cur
	case 3:
		if n >= 2 {
			a, b := lit(0, n/2), lit(n/2, n)
			mm, err := a.Merge(b)
			if err != nil {
				panic(err)
			}
			return mm
		}
	case 4:
		if n >= 1 {
			// original with placeholder values, replaced by the real ones
			lm := listMap.New[value.Value](n)
			for _, k := range m.Keys {
				lm = lm.Append(k, value.Int(-777))
			}
			orig := value.NewMap(lm)
			rep := lit(0, n)
			f := value.Closure(funcGen.Function[value.Value]{Func: func(s funcGen.Stack[value.Value], cs []value.Value) (value.Value, error) { return rep, nil }, Args: 1, IsPure: true})
			s := funcGen.NewStack[value.Value](orig, f)
			nm, err := orig.Replace(s)
			if err != nil {
				panic(err)
			}
			return nm
		}
	}
	_ = st
	return lit(0, n)
}

// Outcome of a real evaluation, forced deeply.
type Outcome struct {
	Val value.Value
	Err error
	// Panic is set when a panic escaped from the library into the caller.
	Panic any
	// FloatTol: compare floats with a relative tolerance of 1e-12 (see EqualTol)
	FloatTol bool
}

// Force deeply evaluates a real value inside a recover; an error while forcing becomes the outcome's error.
func Force(v value.Value, err error) (o Outcome) {
	if err != nil {
		return Outcome{Err: err}
	}
	defer func() {
		if r := recover(); r != nil {
			// forcing a lazy result happens in the host, outside of the evaluation call: an error outcome
			o = Outcome{Err: fmt.Errorf("panic while forcing the result: %v", r)}
		}
	}()
	if e := deepForce(v, 0); e != nil {
		return Outcome{Err: e}
	}
	return Outcome{Val: v}
}

func deepForce(v value.Value, d int) error {
	if d > 50 {
		return nil
	}
	switch t := v.(type) {
	case *value.List:
		sl, err := t.ToSlice(funcGen.NewEmptyStack[value.Value]())
		if err != nil {
			return err
		}
		for _, it := range sl {
			if err := deepForce(it, d+1); err != nil {
				return err
			}
		}
	case value.Map:
		var inner error
		t.Iter(func(k string, x value.Value) bool {
			if err := deepForce(x, d+1); err != nil {
				inner = err
				return false
			}
			return true
		})
		return inner
	}
	return nil
}

// Describe renders a real value (already forced).
func Describe(v value.Value) string {
	return describe(v, 0)
}

func describe(v value.Value, d int) string {
	if d > 6 {
		return "..."
	}
	switch t := v.(type) {
	case nil:
		return "<nil>"
	case value.Int:
		return fmt.Sprintf("%d", int64(t))
	case value.Float:
		return "float(" + ref.FloatStr(float64(t)) + ")"
	case value.String:
		return fmt.Sprintf("%q", string(t))
	case value.Bool:
		return fmt.Sprint(bool(t))
	case *value.List:
		sl, err := t.ToSlice(funcGen.NewEmptyStack[value.Value]())
		if err != nil {
			return "list<error: " + err.Error() + ">"
		}
		var parts []string
		for i, it := range sl {
			if i >= 40 {
				parts = append(parts, fmt.Sprintf("...(%d more)", len(sl)-i))
				break
			}
			parts = append(parts, describe(it, d+1))
		}
		return "[" + strings.Join(parts, ", ") + "]"
	case value.Map:
		var parts []string
		t.Iter(func(k string, x value.Value) bool {
			parts = append(parts, k+":"+describe(x, d+1))
			return true
		})
		sort.Strings(parts)
		return "{" + strings.Join(parts, ", ") + "}"
	case value.Closure:
		return fmt.Sprintf("closure/%d", t.Args)
	}
	return fmt.Sprintf("%T(%v)", v, v)
}

// Equal compares a reference value with a (forced) real value: numbers by kind
// and value, lists by element sequence (or as multisets / within tie groups
// where the order is open), maps by key/value set.
func Equal(want ref.Value, got value.Value) (bool, string) {
	return EqualTol(want, got, false)
}

// EqualTol: with tol, floats may differ by a relative 1e-12 (granted only where the property allows rounding
// differences: the optimizer regrouped constant operands of an operator declared commutative).
func EqualTol(want ref.Value, got value.Value, tol bool) (bool, string) {
	ok, _, d := equalTol3(want, got, tol)
	return ok, d
}

// equalTol3 also reports whether the reference value could not be evaluated again for the comparison (its
// evaluation budget ran out while a lazy list was traversed a second time): then nothing was compared there.
func equalTol3(want ref.Value, got value.Value, tol bool) (ok bool, open bool, diff string) {
	in := &cmpCtx{Interp: ref.NewInterp(), tol: tol}
	ok, diff = equal(in, want, got, "")
	return ok, in.open, diff
}

type cmpCtx struct {
	*ref.Interp
	tol  bool
	open bool
}

func equal(in *cmpCtx, want ref.Value, got value.Value, path string) (bool, string) {
	if got == nil {
		return false, path + ": real value is nil"
	}
	switch w := want.(type) {
	case int64:
		if g, ok := got.(value.Int); ok && int64(g) == w {
			return true, ""
		}
	case float64:
		if g, ok := got.(value.Float); ok && (float64(g) == w || (math.IsNaN(w) && math.IsNaN(float64(g)))) {
			return true, ""
		} else if ok && in.tol && math.Abs(float64(g)-w) <= 1e-12*math.Max(math.Abs(float64(g)), math.Abs(w)) {
			return true, ""
		}
	case string:
		if g, ok := got.(value.String); ok && string(g) == w {
			return true, ""
		} else if ok && in.tol && stringsEqualTol(w, string(g)) {
			// the string form of a float that differs in the last places (regrouped constant operands)
			return true, ""
		}
	case bool:
		if g, ok := got.(value.Bool); ok && bool(g) == w {
			return true, ""
		}
	case ref.Opaque:
		if g, ok := got.(value.String); ok && strings.Contains(string(g), w.Contains) {
			return true, ""
		}
	case *ref.Closure:
		if g, ok := got.(value.Closure); ok && g.Args == w.Arity {
			return true, ""
		}
	case *ref.List:
		g, ok := got.(*value.List)
		if !ok {
			break
		}
		ws, e := in.Force(w)
		if e != nil {
			if e.Unspec || e.Budget {
				in.open = true
				return true, ""
			}
			return false, path + ": reference list fails: " + e.Msg
		}
		gs, err := g.ToSlice(funcGen.NewEmptyStack[value.Value]())
		if err != nil {
			return false, path + ": real list fails: " + err.Error()
		}
		if len(ws) != len(gs) {
			return false, fmt.Sprintf("%s: list sizes differ: reference %d, real %d", path, len(ws), len(gs))
		}
		if w.Unordered {
			return multisetEqual(in, ws, gs, path)
		}
		covered := make([]bool, len(ws))
		for _, t := range w.Ties {
			from, to := t[0], t[1]
			if to > len(ws) {
				to = len(ws)
			}
			if from >= to {
				continue
			}
			if ok, d := multisetEqual(in, ws[from:to], gs[from:to], fmt.Sprintf("%s[%d:%d]", path, from, to)); !ok {
				return false, d
			}
			for i := from; i < to; i++ {
				covered[i] = true
			}
		}
		for i := range ws {
			if covered[i] {
				continue
			}
			if ok, d := equal(in, ws[i], gs[i], fmt.Sprintf("%s[%d]", path, i)); !ok {
				return false, d
			}
		}
		return true, ""
	case *ref.Map:
		g, ok := got.(value.Map)
		if !ok {
			break
		}
		seen := map[string]int{}
		var diff string
		okAll := true
		g.Iter(func(k string, gv value.Value) bool {
			seen[k]++
			wv, has := w.Get(k)
			if !has {
				okAll, diff = false, fmt.Sprintf("%s: real map has extra key %q", path, k)
				return false
			}
			if ok, d := equal(in, wv, gv, path+"."+k); !ok {
				okAll, diff = false, d
				return false
			}
			return true
		})
		if !okAll {
			return false, diff
		}
		for k, n := range seen {
			if n > 1 {
				return false, fmt.Sprintf("%s: real map iterates key %q %d times", path, k, n)
			}
		}
		for _, k := range w.Keys {
			if seen[k] == 0 {
				return false, fmt.Sprintf("%s: real map lacks key %q", path, k)
			}
		}
		return true, ""
	}
	return false, fmt.Sprintf("%s: reference %s, real %s", path, ref.Describe(want), Describe(got))
}

func multisetEqual(in *cmpCtx, ws []ref.Value, gs []value.Value, path string) (bool, string) {
	used := make([]bool, len(gs))
	for _, w := range ws {
		found := false
		for j, g := range gs {
			if used[j] {
				continue
			}
			if ok, _ := equal(in, w, g, path); ok {
				used[j] = true
				found = true
				break
			}
		}
		if !found {
			return false, fmt.Sprintf("%s: no counterpart (any order) for reference element %s", path, ref.Describe(w))
		}
	}
	return true, ""
}

// Verdict of comparing a reference outcome with a real outcome.
type Verdict int

const (
	Agree Verdict = iota
	Unspecified
	Disagree
)

// CompareOutcome applies the C01 comparison rule.
func CompareOutcome(wv ref.Value, we *ref.Err, readAheadErr bool, got Outcome) (Verdict, string) {
	if got.Panic != nil {
		return Disagree, fmt.Sprintf("panic escaped: %v", got.Panic)
	}
	if we != nil {
		if we.Unspec {
			return Unspecified, we.Msg
		}
		if got.Err == nil {
			return Disagree, fmt.Sprintf("reference: error (%s); real: value %s", we.Msg, Describe(got.Val))
		}
		if we.IsThrown && !strings.Contains(got.Err.Error(), we.Thrown) {
			return Disagree, fmt.Sprintf("thrown text %q does not appear in the real error %q", we.Thrown, got.Err.Error())
		}
		return Agree, ""
	}
	if got.Err != nil {
		if readAheadErr {
			return Unspecified, "error inside the read-ahead window of a short-circuit consumer"
		}
		return Disagree, fmt.Sprintf("reference: value %s; real: error %v", ref.Describe(wv), got.Err)
	}
	ok, open, d := equalTol3(wv, got.Val, got.FloatTol)
	if !ok {
		return Disagree, d
	}
	if open {
		return Unspecified, "the reference value could not be evaluated again for the comparison (budget)"
	}
	return Agree, ""
}

var numberRe = regexp.MustCompile(`-?[0-9]+(\.[0-9]+)?([eE][+-]?[0-9]+)?`)

// stringsEqualTol: equal text in which the numbers may differ by a relative 1e-12.
func stringsEqualTol(a, b string) bool {
	na, nb := numberRe.FindAllStringIndex(a, -1), numberRe.FindAllStringIndex(b, -1)
	if len(na) != len(nb) || len(na) == 0 {
		return false
	}
	pa, pb := 0, 0
	for i := range na {
		if a[pa:na[i][0]] != b[pb:nb[i][0]] {
			return false
		}
		x, e1 := strconv.ParseFloat(a[na[i][0]:na[i][1]], 64)
		y, e2 := strconv.ParseFloat(b[nb[i][0]:nb[i][1]], 64)
		if e1 != nil || e2 != nil || math.Abs(x-y) > 1e-12*math.Max(math.Abs(x), math.Abs(y)) {
			return false
		}
		pa, pb = na[i][1], nb[i][1]
	}
	return a[pa:] == b[pb:]
}
