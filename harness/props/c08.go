package props

// C08 — laziness: short-circuit consumers demand only the prefix they need.
// Monitor M-count: tick(stage, element) events of the real evaluation against
// the demand model (the same events recorded by the ideal on-demand reference
// interpreter); quiescence after return; termination on 10^11 sources under
// the watchdog. Exact bounds are asserted on the 1-CPU configuration, where
// the parallel switch is impossible.

import (
	"fmt"
	"strings"
	"sync"
	"time"

	"github.com/hneemann/parser2/funcGen"
	"github.com/hneemann/parser2/value"

	"verif/bridge"
	"verif/gen"
	"verif/ref"
	"verif/wk"
)

type c08 struct{}

func init() { register("C08", c08{}) }

func (c08) Plan(tier string) wk.Plan {
	n := int64(6000)
	cfgs := []wk.Config{{Name: "cpu1", CPUs: 1, Shards: 12}, {Name: "cpu4", CPUs: 4, Shards: 2}}
	if tier == "thorough" {
		n = 120_000
		cfgs = []wk.Config{{Name: "cpu1", CPUs: 1, Shards: 12}, {Name: "cpu4", CPUs: 4, Shards: 2}, {Name: "cpu2-gmp8", CPUs: 2, GoMaxProcs: 8, Shards: 1}}
	}
	return wk.Plan{
		Level: "exploration", Cases: n, Chunk: 100, Configs: cfgs, CaseBudget: 30, HangIsViolation: true,
		Rule:        "case kinds: (demand, 70%) a generated pipeline source -> 1-4 lazy stages -> short-circuit consumer (first, top(n).size/sum, present, indexWhere, single, ~, multiUse of first/top) over sources of 10^3 or 10^6 elements (literal, argument, numbers), decisive element at positions 0..64 and a few large ones, with tick(stage, element) in every closure; on the 1-CPU configuration every stage's event count and largest element must stay within the demand model + 1 element of read-ahead per stage, and the result must equal the model; (errors, 10%) a failing element at offset -2..+3 around the needed prefix: inside -> error, two or more behind -> must not be reported (offset +1 unclaimed); (unconsumed, 10%) building a pipeline without consuming it must produce zero events; in a third of the demand cases and half of the unconsumed ones the pipeline is handed on through a construct that needs no element (try/catch, if, switch, closure call, list/map literal indexed at once, let); (huge, 10%) a short-circuit consumer over numbers(100000000000) must return (watchdog 30 s) with the model's result. After every evaluation the event count must be stable across two polls (no closure calls after Eval returned). On multi-CPU configurations with expensive stages only termination, result, quiescence are asserted; the largest overshoot is reported. Non-trivial = pipeline with >= 2 closure stages and a decisive element > 0; distinct by program text.",
		Floor:       300,
		Assumptions: []string{"demand model = tick events of the reference interpreter, whose lists are pull-based with exact minimal demand (no read-ahead)", "the dependency's hand-off makes the in-flight window of a parallel stage timing dependent; exact bounds are asserted where parallel execution is impossible (1 CPU)"},
	}
}

type c08rec struct {
	mu    sync.Mutex
	count map[int64]int64
	maxEl map[int64]int64
	total int64
}

func newC08rec() *c08rec { return &c08rec{count: map[int64]int64{}, maxEl: map[int64]int64{}} }

func (r *c08rec) add(stage, x int64) {
	r.mu.Lock()
	r.count[stage]++
	if x > r.maxEl[stage] {
		r.maxEl[stage] = x
	}
	r.total++
	r.mu.Unlock()
}

func (r *c08rec) snapshot() (map[int64]int64, map[int64]int64, int64) {
	r.mu.Lock()
	defer r.mu.Unlock()
	c, m := map[int64]int64{}, map[int64]int64{}
	for k, v := range r.count {
		c[k] = v
	}
	for k, v := range r.maxEl {
		m[k] = v
	}
	return c, m, r.total
}

var c08gen *value.FunctionGenerator
var c08real = newC08rec()

func (c08) Run(c *wk.Case) {
	if c08gen == nil {
		c08gen = value.New()
		pipeHost(c08gen, func(stage, x int64) { c08real.add(stage, x) })
	}
	r := c.Rng
	kind := c.Index % 10
	var node *ref.Node
	srcN := int64(1000)
	if r.IntN(3) == 0 {
		srcN = 1000000
	}
	desc := ""
	o := gen.PipeOpts{MaxN: 0, Cost: 0, FailAt: -1, ShortCirc: true, MaxStages: 4}
	parallelCost := c.Config != "cpu1" && r.IntN(2) == 0
	switch {
	case kind < 7 || kind == 7:
		// demand / errors: build by hand for control over the decisive position
		node, desc = c08Pipeline(c, srcN, kind == 7, parallelCost)
	case kind == 8:
		// an unconsumed pipeline of lazy stages only: bound to a name, never used
		lazyOnly := c08Stages(c, int64(200+r.IntN(800)), -1, -1, false)
		if r.IntN(2) == 0 {
			lazyOnly = ref.Method(lazyOnly, []string{"top", "skip"}[r.IntN(2)], ref.Int(int64(r.IntN(9))))
		}
		if r.IntN(3) == 0 {
			lazyOnly = ref.Bin("+", lazyOnly, c08Stages(c, 50, -1, -1, false))
		}
		if r.IntN(3) == 0 {
			lazyOnly = ref.Method(lazyOnly, "merge", c08Stages(c, 30, -1, -1, false), ref.Clo([]string{"p1", "p2"}, ref.Bin("<", tickN(60, ref.Id("p1")), ref.Id("p2"))))
		}
		if r.IntN(2) == 0 {
			lazyOnly, _ = c08PassThrough(c, lazyOnly)
		}
		node = ref.Let("p", lazyOnly, ref.Int(5))
		desc = "unconsumed"
	default:
		node, desc = c08Huge(c)
	}
	_ = o
	if node == nil {
		return
	}
	src, ok := safeSource(node, ref.PrintOpts{})
	if !ok {
		c.Inconclusive("generator-bug", "let in a forbidden position")
		return
	}
	c.Logf("[%s] %s", desc, src)
	model := newC08rec()
	in := pipeRefInterp(func(stage, x int64) { model.add(stage, x) })
	items := make([]ref.Value, 0)
	wv, we, _ := refEval(in, node, []string{"src"}, []ref.Value{ref.NewList(items...)})
	if we != nil && (we.Unspec || we.Budget) {
		c.Count("reference_unspecified", 1)
		return
	}
	f, err, pan := generate(c08gen, src, []string{"src"})
	if err != nil || pan != nil {
		c.Violation("pipeline-rejected", fmt.Sprintf("Generate(%q): %v %v", src, err, pan), map[string]any{"src": src})
		return
	}
	c08real.mu.Lock()
	c08real.count, c08real.maxEl, c08real.total = map[int64]int64{}, map[int64]int64{}, 0
	c08real.mu.Unlock()
	got := evalReal(f, []value.Value{value.NewList()})
	_, _, t1 := c08real.snapshot()
	time.Sleep(3 * time.Millisecond)
	_, _, t2 := c08real.snapshot()
	if t2 != t1 {
		time.Sleep(20 * time.Millisecond)
		_, _, t3 := c08real.snapshot()
		// producers of merge/multiUse run on goroutines of their own and may finish the element they are working
		// on (the read-ahead the property allows) shortly after the evaluation returned; anything beyond that, or
		// activity that does not settle, is closure evaluation after return
		if t3 != t2 || t2-t1 > 4 {
			c.Violation("closures-run-after-eval-returned", fmt.Sprintf("[%s] %q: %d tick events at return, %d 3 ms later, %d 23 ms later", c.Config, src, t1, t2, t3), map[string]any{"src": src, "config": c.Config})
			return
		}
		c.Count("late_events_settled_within_3ms", 1)
	}
	if v, why := bridge.CompareOutcome(wv, we, false, got); v == bridge.Disagree {
		// an error of an element right behind the needed prefix (+1) is unclaimed: the error cases avoid that offset
		c.Violation("short-circuit-result-differs", fmt.Sprintf("[%s, %s] %q: %s", c.Config, desc, src, why), map[string]any{"src": src, "why": why, "config": c.Config, "kind": desc})
		return
	}
	rc, rm, rt := c08real.snapshot()
	mc, mm, mt := model.snapshot()
	c.Count("tick_events_real", rt)
	c.Count("tick_events_model", mt)
	if desc == "unconsumed" && rt != 0 {
		c.Violation("unconsumed-pipeline-evaluates-closures", fmt.Sprintf("[%s] %q: %d closure calls although nothing is consumed", c.Config, src, rt), map[string]any{"src": src})
		return
	}
	multi := strings.Contains(src, ".multiUse(")
	if c.Config == "cpu1" && !strings.HasPrefix(desc, "error") {
		for st, n := range rc {
			if multi {
				// the model iterates the shared source once per consumer: only the largest element is comparable
				if rm[st] > mm[st]+1 {
					c.Violation("demand-exceeds-model", fmt.Sprintf("[%s, %s] %q: stage %d evaluated up to element %d, the consumers need up to %d + 1 read-ahead", c.Config, desc, src, st, rm[st], mm[st]),
						map[string]any{"src": src, "stage": st, "real_max": rm[st], "model_max": mm[st]})
					return
				}
				continue
			}
			// one element of read-ahead per stage: count and largest element
			if n > mc[st]+1 || rm[st] > mm[st]+1 && mc[st] > 0 || (mc[st] == 0 && n > 1) {
				c.Violation("demand-exceeds-model", fmt.Sprintf("[%s, %s] %q: stage %d evaluated %d elements (largest %d), the consumer needs %d (largest %d) + 1 read-ahead", c.Config, desc, src, st, n, rm[st], mc[st], mm[st]),
					map[string]any{"src": src, "stage": st, "real_count": n, "model_count": mc[st], "real_max": rm[st], "model_max": mm[st]})
				return
			}
		}
	} else {
		var over int64
		for st, n := range rc {
			if d := n - mc[st]; d > over {
				over = d
			}
		}
		c.Max("parallel_overshoot_elements", over)
	}
	if mt >= 2 {
		c.NonTrivial(wk.Hash64(src))
		if c.Index%400 == 0 {
			c.Sample(map[string]any{"kind": desc, "pipeline": src, "config": c.Config, "events_real": rt, "events_model": mt})
		}
	}
}

func stripTerminal(n *ref.Node) *ref.Node {
	// G-pipe terminals wrap the pipeline; descend to the innermost receiver that is a lazy stage
	cur := n
	for {
		switch cur.K {
		case ref.KTry:
			cur = cur.X
			continue
		case ref.KMethod:
			switch cur.Name {
			case "map", "accept", "combine", "combine3", "combineN", "iir", "iirCombine", "number", "compact", "cross", "merge", "top", "skip", "fsm":
				return cur
			}
			cur = cur.X
			continue
		case ref.KBinary:
			if cur.Op == "+" {
				return cur
			}
			if cur.Op == "~" {
				cur = cur.Y
				continue
			}
		}
		return cur
	}
}

// c08Pipeline: source -> stages -> short-circuit consumer with the decisive element at position k.
func c08Pipeline(c *wk.Case, srcN int64, withError bool, expensive bool) (*ref.Node, string) {
	r := c.Rng
	k := int64(r.IntN(65))
	if r.IntN(10) == 0 {
		k = int64(100 + r.IntN(800))
	}
	if r.IntN(8) == 0 {
		// small sources of known size (a size-dependent shortcut must not make a stage eager)
		srcN = int64(2 + r.IntN(20))
		k = int64(r.IntN(int(srcN)))
		if r.IntN(2) == 0 {
			k = 0
		}
		if !withError && r.IntN(2) == 0 {
			// multiUse over a short list whose size is known in advance (numbers + stages that keep the size):
			// consumers that need one or two items
			id := ref.Id
			var cur *ref.Node = ref.Static("numbers", ref.Int(srcN))
			for s := 0; s < 1+r.IntN(2); s++ {
				a, b := fmt.Sprintf("a%d", s), fmt.Sprintf("b%d", s)
				switch r.IntN(3) {
				case 0:
					cur = ref.Method(cur, "map", ref.Clo([]string{a}, tickN(s, id(a))))
				case 1:
					cur = ref.Method(cur, "number", ref.Clo([]string{a, b}, ref.Bin("+", tickN(s, id(b)), ref.Bin("-", id(a), id(a)))))
				default:
					cur = ref.Method(cur, "iir", ref.Clo([]string{a}, tickN(s, id(a))), ref.Clo([]string{a, b}, ref.Bin("+", tickN(s, id(a)), ref.Bin("-", id(b), id(b)))))
				}
			}
			cons := []*ref.Node{
				ref.Clo([]string{"l"}, ref.Method(id("l"), "first")),
				ref.Clo([]string{"l"}, ref.Method(ref.Method(id("l"), "top", ref.Int(1)), "size")),
				ref.Clo([]string{"l"}, ref.Method(id("l"), "present", ref.Clo([]string{"z"}, ref.Bin(">=", id("z"), ref.Int(0))))),
				ref.Clo([]string{"l"}, ref.Method(id("l"), "indexWhere", ref.Clo([]string{"z"}, ref.Bin(">=", id("z"), ref.Int(0))))),
			}
			keys := []string{"u", "v", "w"}[:1+r.IntN(3)]
			var vals []*ref.Node
			for range keys {
				vals = append(vals, cons[r.IntN(len(cons))])
			}
			return ref.Method(ref.Method(cur, "multiUse", ref.MapN(keys, vals)), "string"), fmt.Sprintf("demand multiUse-small n=%d", srcN)
		}
	}
	if withError && expensive {
		// a parallel stage reads ahead by its worker count; errors inside that window are unclaimed
		expensive = false
	}
	failAt := int64(-1)
	if withError {
		off := []int64{-2, -1, 0, 2, 3}[r.IntN(5)]
		failAt = k + off
		if failAt < 0 {
			failAt = 0
		}
	}
	cur := c08Stages(c, srcN, failAt, k, expensive)
	passDesc := ""
	if r.IntN(3) == 0 {
		cur, passDesc = c08PassThrough(c, cur)
	}
	id := ref.Id
	K := ref.Int(k)
	desc := fmt.Sprintf("demand k=%d n=%d%s", k, srcN, passDesc)
	if withError {
		desc = fmt.Sprintf("error failAt=%d k=%d", failAt, k)
	}
	return c08Consumer(c, cur, k, K, id), desc
}

// c08Stages: source -> 1-4 element-preserving lazy stages with tick in every closure.
func c08Stages(c *wk.Case, srcN int64, failAt int64, k int64, expensive bool) *ref.Node {
	r := c.Rng
	withError := failAt >= 0
	var cur *ref.Node = ref.Static("numbers", ref.Int(srcN))
	if srcN == 1000 && r.IntN(4) == 0 {
		// lazy list built from another stage
		cur = ref.Method(ref.Static("numbers", ref.Int(srcN)), "skip", ref.Int(0))
	} else if srcN <= 1000 && r.IntN(4) == 0 {
		// a source that is already in memory (literal, evaluated, sorted, appended): nothing may look at
		// its items while the pipeline is only being built
		var items []*ref.Node
		for i := int64(0); i < 70; i++ {
			items = append(items, ref.Int(i))
		}
		cur = ref.ListN(items...)
		switch r.IntN(4) {
		case 0:
			cur = ref.Method(cur, "eval")
		case 1:
			cur = ref.Method(cur, "order", ref.Clo([]string{"o"}, ref.Id("o")))
		case 2:
			cur = ref.Method(ref.ListN(items[:69]...), "append", ref.Int(69))
		}
	}
	nst := 1 + r.IntN(4)
	id := ref.Id
	failStage := -1
	if withError {
		failStage = r.IntN(nst)
	}
	// element-preserving stages so that the decisive position stays k
	for s := 0; s < nst; s++ {
		a, b := fmt.Sprintf("a%d", s), fmt.Sprintf("b%d", s)
		e := func(x *ref.Node) *ref.Node {
			t := tickN(s, x)
			if expensive && s == 0 {
				t = ref.Static("delay", t, ref.Int(250))
			}
			if s == failStage {
				t = ref.Static("failAt", t, ref.Int(failAt))
			}
			return t
		}
		switch r.IntN(9) {
		case 8:
			// the pipeline so far as the second list of cross: the first pass over it is all a consumer behind needs
			// (the values stay those of the list: the demand of multiUse consumers is compared by largest value)
			cur = ref.Method(ref.ListN(ref.Int(0), ref.Int(1)), "cross", cur, ref.Clo([]string{b, a}, ref.Bin("+", ref.Bin("-", id(b), id(b)), id(a))))
		case 6:
			// concatenation with an operand that is already in memory (literal, evaluated list): the lazy side stays lazy
			lit := []*ref.Node{ref.ListN(ref.Int(-1), ref.Int(-2)), ref.ListN(ref.Int(-7)), ref.Method(ref.ListN(ref.Int(-1), ref.Int(-2), ref.Int(-3)), "eval"), ref.ListN()}[r.IntN(4)]
			if r.IntN(3) == 0 {
				cur = ref.Bin("+", cur, lit)
			} else {
				cur = ref.Bin("+", lit, cur)
			}
		case 7:
			// concatenation of two lazy lists; the second one is only touched when the first is exhausted
			cur = ref.Bin("+", cur, ref.Method(ref.Static("numbers", ref.Int(1000)), "map", ref.Clo([]string{a}, tickN(60+s, id(a)))))
		case 0, 1:
			cur = ref.Method(cur, "map", ref.Clo([]string{a}, e(id(a))))
		case 2:
			cur = ref.Method(cur, "accept", ref.Clo([]string{a}, ref.Bin(">=", e(id(a)), ref.Int(0))))
		case 3:
			cur = ref.Method(cur, "number", ref.Clo([]string{a, b}, ref.Bin("+", e(id(b)), ref.Bin("-", id(a), id(a)))))
		case 4:
			cur = ref.Method(cur, "iir", ref.Clo([]string{a}, e(id(a))), ref.Clo([]string{a, b}, ref.Bin("+", e(id(a)), ref.Bin("-", id(b), id(b)))))
		default:
			cur = ref.Method(cur, "compact", ref.Clo([]string{a, b}, ref.Bin("=", e(id(a)), ref.Bin("-", id(b), ref.Int(1000000000)))))
		}
	}
	return cur
}

func c08Consumer(c *wk.Case, cur *ref.Node, k int64, K *ref.Node, id func(string) *ref.Node) *ref.Node {
	r := c.Rng
	switch r.IntN(11) {
	case 9, 10:
		// single on a list with more than one item: the second item decides (an error), nothing behind it is needed
		cur = ref.Try(ref.Method(ref.Method(cur, "skip", ref.Int(k/2)), "single"), ref.Int(-1))
	case 8:
		// membership with a list on the left: all of its items must be found, the larger one decides
		lo := k / 2
		cur = ref.Bin("~", ref.ListN(ref.Int(lo), K), cur)
	case 0:
		// first element >= k
		cur = ref.Method(ref.Method(cur, "accept", ref.Clo([]string{"z"}, ref.Bin(">=", tickN(50, id("z")), K))), "first")
	case 1:
		cur = ref.Method(ref.Method(cur, "top", ref.Int(k+1)), "size")
	case 2:
		cur = ref.Try(ref.Method(ref.Method(cur, "top", ref.Int(k+1)), "sum"), ref.Int(-1))
	case 3:
		cur = ref.Method(cur, "present", ref.Clo([]string{"z"}, ref.Bin("=", tickN(50, id("z")), K)))
	case 4:
		cur = ref.Method(cur, "indexWhere", ref.Clo([]string{"z"}, ref.Bin("=", tickN(50, id("z")), K)))
	case 5:
		cur = ref.Bin("~", K, cur)
	case 6:
		cur = ref.Method(ref.Method(ref.Method(cur, "skip", K), "top", ref.Int(1)), "single")
	default:
		cur = ref.Method(ref.Method(cur, "multiUse", ref.MapN([]string{"u", "v"}, []*ref.Node{
			ref.Clo([]string{"l"}, ref.Method(ref.Method(id("l"), "accept", ref.Clo([]string{"z"}, ref.Bin(">=", id("z"), K))), "first")),
			ref.Clo([]string{"l"}, ref.Method(ref.Method(id("l"), "top", ref.Int(k/2+1)), "size")),
		})), "string")
	}
	return cur
}

// c08PassThrough: the pipeline reaches its consumer through a construct that only hands a value on (try/catch,
// if, switch, a closure call, a list or map literal that is indexed at once, a let): none of them needs an element.
func c08PassThrough(c *wk.Case, cur *ref.Node) (*ref.Node, string) {
	switch c.Rng.IntN(8) {
	case 0:
		return ref.Try(cur, ref.ListN()), " via try"
	case 1:
		return ref.Try(cur, ref.Clo([]string{"e9"}, ref.ListN(ref.Int(-1)))), " via try-closure"
	case 2:
		return ref.If(ref.Bin("<", ref.Method(ref.Id("src"), "size"), ref.Int(5)), cur, ref.ListN()), " via if"
	case 3:
		return ref.Call(ref.Clo([]string{"q9"}, ref.Id("q9")), cur), " via closure call"
	case 4:
		return ref.Index(ref.ListN(ref.Int(0), cur), ref.Int(1)), " via list literal"
	case 5:
		return ref.Member(ref.MapN([]string{"f", "g"}, []*ref.Node{cur, ref.Int(1)}), "f"), " via map literal"
	case 6:
		return ref.Switch(ref.Method(ref.Id("src"), "size"), []*ref.Node{ref.Int(0)}, []*ref.Node{cur}, ref.ListN()), " via switch"
	default:
		return ref.Call(ref.Clo([]string{"q8"}, ref.Try(ref.Id("q8"), ref.ListN())), cur), " via closure call+try"
	}
}

func c08Huge(c *wk.Case) (*ref.Node, string) {
	r := c.Rng
	id := ref.Id
	big := ref.Static("numbers", ref.Int(100000000000))
	k := ref.Int(int64(r.IntN(40)))
	var cur *ref.Node
	switch r.IntN(8) {
	case 7:
		cur = ref.Bin("~", ref.ListN(ref.Int(3), k), ref.Method(big, "map", ref.Clo([]string{"x"}, tickN(0, id("x")))))
	case 0:
		cur = ref.Method(ref.Method(ref.Method(big, "accept", ref.Clo([]string{"x"}, ref.Bin("=", id("x"), k))), "top", ref.Int(1)), "size")
	case 1:
		cur = ref.Method(ref.Method(big, "map", ref.Clo([]string{"x"}, tickN(0, id("x")))), "first")
	case 2:
		cur = ref.Method(ref.Method(big, "map", ref.Clo([]string{"x"}, ref.Bin("*", tickN(0, id("x")), ref.Int(2)))), "present", ref.Clo([]string{"x"}, ref.Bin("=", id("x"), ref.Bin("*", k, ref.Int(2)))))
	case 3:
		cur = ref.Method(big, "indexWhere", ref.Clo([]string{"x"}, ref.Bin("=", tickN(0, id("x")), k)))
	case 4:
		cur = ref.Bin("~", k, ref.Method(big, "number", ref.Clo([]string{"i", "x"}, tickN(0, id("x")))))
	case 5:
		cur = ref.Method(ref.Method(ref.Method(big, "skip", k), "top", ref.Int(3)), "sum")
	default:
		cur = ref.Method(ref.Method(ref.Method(big, "combine", ref.Clo([]string{"p", "q"}, ref.Bin("+", tickN(0, id("p")), id("q")))), "top", ref.Int(5)), "string")
	}
	return cur, "huge"
}

var _ = funcGen.NewEmptyStack[value.Value]

func tickN(stage int, x *ref.Node) *ref.Node { return gen.TickN(stage, x) }
