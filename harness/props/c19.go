package props

// C19 — the generic generator is correct for any value type (bounded-exhaustive).
//
// The harness owns the expression tree: it renders it to text (minimal
// parentheses by the declared priorities, or full parentheses), hands the text
// to funcGen.New[bool] / funcGen.New[float64] configured like example/bool.go
// and example/minimal.go (plus let/if keywords), and compares Func.Eval on all
// assignments with a direct evaluation of the tree by the operators' own
// definitions — with the default optimizer, with SetOptimizer(nil), and with a
// rotating variant of the commutative flags.

import (
	"fmt"
	"math"
	"strconv"
	"strings"

	"github.com/hneemann/parser2"
	"github.com/hneemann/parser2/funcGen"

	"verif/wk"
)

type c19 struct{}

func init() { register("C19", c19{}) }

// ---------- tree ----------

type xt struct {
	k    byte // 'a' atom, 'u' unary, 'b' binary, 'f' function sqr, 'i' if, 'l' let, 'x' let variable
	op   int  // operator index / atom index
	l, r *xt
	c    *xt // if-condition / let value
}

// names of let variables (node kinds 'l' and 'x' carry the index in op)
var letNames = []string{"x", "y", "z", "u", "v", "w"}

// randLets builds a chain of 2..3 nested lets: every value and the body are small random trees over the
// atoms and the variables declared so far; a variable may stay unused, a value may or may not be constant.
func randLets(r interface {
	IntN(int) int
	Int64N(int64) int64
}, t []int64, atoms, nb, nu int64) *xt {
	depth := 2 + r.IntN(2)
	small := func(nvars int) *xt {
		n := r.IntN(3)
		x := unrank(t, n, r.Int64N(t[n]), atoms, nb, nu)
		if nvars > 0 {
			var sub func(*xt)
			sub = func(y *xt) {
				if y == nil {
					return
				}
				for _, ch := range []**xt{&y.l, &y.r, &y.c} {
					if *ch != nil && (*ch).k == 'a' && r.IntN(2) == 0 {
						*ch = &xt{k: 'x', op: r.IntN(nvars)}
					} else {
						sub(*ch)
					}
				}
			}
			if x.k == 'a' && r.IntN(2) == 0 {
				return &xt{k: 'x', op: r.IntN(nvars)}
			}
			sub(x)
		}
		return x
	}
	body := small(depth)
	for v := depth - 1; v >= 0; v-- {
		val := small(v)
		if r.IntN(4) == 0 {
			// the value is an if whose branch declares variables of its own (u, v): let inside a let value
			inner := small(v)
			uses := &xt{k: 'x', op: 3}
			if r.IntN(2) == 0 {
				inner2 := &xt{k: 'b', op: r.IntN(int(nb)), l: &xt{k: 'x', op: 4}, r: &xt{k: 'x', op: 3}}
				uses = &xt{k: 'l', op: 4, c: small(v), l: inner2}
			} else if r.IntN(2) == 0 {
				uses = &xt{k: 'b', op: r.IntN(int(nb)), l: uses, r: small(v)}
			}
			branch := &xt{k: 'l', op: 3, c: inner, l: uses}
			if r.IntN(2) == 0 {
				val = &xt{k: 'i', c: small(v), l: branch, r: small(v)}
			} else {
				val = &xt{k: 'i', c: small(v), l: small(v), r: branch}
			}
		}
		body = &xt{k: 'l', op: v, c: val, l: body}
	}
	return body
}

// ---------- bool domain ----------

var boolOps = []string{"^", "=", "|", "&"} // ascending priority as in example/bool.go
var boolAtoms = []string{"a", "b", "c", "true", "false"}

func boolApply(op int, x, y bool) bool {
	switch op {
	case 0:
		return x != y
	case 1:
		return x == y
	case 2:
		return x || y
	default:
		return x && y
	}
}

type boolGen struct {
	g    *funcGen.FunctionGenerator[bool]
	name string
}

func newBoolGen(flags int, opt bool) *boolGen {
	g := funcGen.New[bool]().
		AddConstant("false", false).
		AddConstant("true", true).
		SetKeyWords("let", "if", "then", "else")
	impl := []func(a, b bool) (bool, error){
		func(a, b bool) (bool, error) { return a != b, nil },
		func(a, b bool) (bool, error) { return a == b, nil },
		func(a, b bool) (bool, error) { return a || b, nil },
		func(a, b bool) (bool, error) { return a && b, nil },
	}
	for i, o := range boolOps {
		g.AddSimpleOp(o, flags&(1<<i) != 0, impl[i])
	}
	g.AddUnaryFunc("!", func(a bool) (bool, error) { return !a, nil }).
		SetToBool(func(c bool) (bool, bool) { return c, true })
	if !opt {
		g.SetOptimizer(nil)
	}
	return &boolGen{g: g, name: fmt.Sprintf("bool/flags=%04b/opt=%v", flags, opt)}
}

// counts of bool trees with n operator nodes over k atoms, nb binary ops, nu unary ops
func treeCounts(maxN int, atoms, nb, nu int64) []int64 {
	t := make([]int64, maxN+1)
	t[0] = atoms
	for n := 1; n <= maxN; n++ {
		s := nu * t[n-1]
		for i := 0; i <= n-1; i++ {
			s += nb * t[i] * t[n-1-i]
		}
		t[n] = s
	}
	return t
}

// unrank returns tree number k among trees with n operator nodes.
func unrank(t []int64, n int, k int64, atoms, nb, nu int64) *xt {
	if n == 0 {
		return &xt{k: 'a', op: int(k)}
	}
	if k < nu*t[n-1] {
		return &xt{k: 'u', op: int(k / t[n-1]), l: unrank(t, n-1, k%t[n-1], atoms, nb, nu)}
	}
	k -= nu * t[n-1]
	for i := 0; i <= n-1; i++ {
		j := n - 1 - i
		bs := nb * t[i] * t[j]
		if k < bs {
			op := int(k / (t[i] * t[j]))
			rem := k % (t[i] * t[j])
			return &xt{k: 'b', op: op, l: unrank(t, i, rem/t[j], atoms, nb, nu), r: unrank(t, j, rem%t[j], atoms, nb, nu)}
		}
		k -= bs
	}
	panic("unrank out of range")
}

func boolEval(t *xt, env [9]bool) bool {
	switch t.k {
	case 'a':
		switch t.op {
		case 0, 1, 2:
			return env[t.op]
		case 3:
			return true
		default:
			return false
		}
	case 'x':
		return env[3+t.op]
	case 'u':
		return !boolEval(t.l, env)
	case 'b':
		return boolApply(t.op, boolEval(t.l, env), boolEval(t.r, env))
	case 'i':
		if boolEval(t.c, env) {
			return boolEval(t.l, env)
		}
		return boolEval(t.r, env)
	case 'l':
		env[3+t.op] = boolEval(t.c, env)
		return boolEval(t.l, env)
	}
	panic("bad node")
}

// render modes: 0 minimal parentheses, 1 full parentheses
func boolRender(sb *strings.Builder, t *xt, mode int) {
	switch t.k {
	case 'a':
		sb.WriteString(boolAtoms[t.op])
	case 'x':
		sb.WriteString(letNames[t.op])
	case 'u':
		sb.WriteString("!")
		if t.l.k == 'a' || t.l.k == 'x' {
			boolRender(sb, t.l, mode)
		} else {
			sb.WriteString("(")
			boolRender(sb, t.l, mode)
			sb.WriteString(")")
		}
	case 'b':
		paren := func(ch *xt, right bool) bool {
			if ch.k == 'i' || ch.k == 'l' {
				return true
			}
			if ch.k != 'b' {
				return false
			}
			if mode == 1 {
				return true
			}
			if right {
				return ch.op <= t.op
			}
			return ch.op < t.op
		}
		for side, ch := range []*xt{t.l, t.r} {
			if side == 1 {
				sb.WriteString(boolOps[t.op])
			}
			if paren(ch, side == 1) {
				sb.WriteString("(")
				boolRender(sb, ch, mode)
				sb.WriteString(")")
			} else {
				boolRender(sb, ch, mode)
			}
		}
	case 'i':
		sb.WriteString("if ")
		boolRender(sb, t.c, mode)
		sb.WriteString(" then ")
		boolRender(sb, t.l, mode)
		sb.WriteString(" else ")
		boolRender(sb, t.r, mode)
	case 'l':
		sb.WriteString("let " + letNames[t.op] + "=")
		boolRender(sb, t.c, mode)
		sb.WriteString(";")
		boolRender(sb, t.l, mode)
	}
}

// ---------- float domain ----------

var floatOps = []string{"=", "<", ">", "+", "-", "*", "/", "^"} // ascending priority as in example/minimal.go
var floatAtoms = []string{"a", "b", "0", "1", "2", "0.5"}
var floatAtomVal = []float64{0, 0, 0, 1, 2, 0.5}
var floatGrid = []float64{-2, -1, -0.5, 0, 0.5, 1, 2, 3}

const fMinus = 4

func fb(b bool) float64 {
	if b {
		return 1
	}
	return 0
}

func floatApply(op int, x, y float64) float64 {
	switch op {
	case 0:
		return fb(x == y)
	case 1:
		return fb(x < y)
	case 2:
		return fb(x > y)
	case 3:
		return x + y
	case 4:
		return x - y
	case 5:
		return x * y
	case 6:
		return x / y
	default:
		return math.Pow(x, y)
	}
}

type floatGen struct {
	g     *funcGen.FunctionGenerator[float64]
	name  string
	flags int
	opt   bool
}

// flags: bit0 '+' commutative, bit1 '*' commutative. '=' is never declared
// commutative here: in this library the flag licenses re-association, and
// float '=' (result 0/1) is not associative.
func newFloatGen(flags int, opt bool) *floatGen {
	g := funcGen.New[float64]().
		SetComfort(true).
		SetKeyWords("let", "if", "then", "else")
	for i, o := range floatOps {
		i := i
		comm := (i == 3 && flags&1 != 0) || (i == 5 && flags&2 != 0)
		g.AddSimpleOp(o, comm, func(a, b float64) (float64, error) { return floatApply(i, a, b), nil })
	}
	g.AddUnaryFunc("-", func(a float64) (float64, error) { return -a, nil }).
		AddSimpleFunction("sqr", func(x float64) float64 { return x * x }).
		AddGoFunction("sum", -1, func(a ...float64) (float64, error) {
			s := 0.0
			for i, x := range a {
				if i == 0 {
					s = x
				} else {
					s += x
				}
			}
			return s, nil
		}).
		AddGoFunction("count", -1, func(a ...float64) (float64, error) { return float64(len(a)), nil }).
		SetToBool(func(c float64) (bool, bool) { return c != 0, true }).
		SetNumberParser(parser2.NumberParserFunc[float64](func(n string) (float64, error) { return strconv.ParseFloat(n, 64) }))
	if !opt {
		g.SetOptimizer(nil)
	}
	return &floatGen{g: g, name: fmt.Sprintf("float/flags=%02b/opt=%v", flags, opt), flags: flags, opt: opt}
}

// floatEval evaluates the tree; *regroupOK is cleared when some chain of a
// commutative operator has operands for which re-association is not exact.
func floatEval(t *xt, env [8]float64, regroupOK *bool) float64 {
	switch t.k {
	case 'a':
		if t.op < 2 {
			return env[t.op]
		}
		return floatAtomVal[t.op]
	case 'x':
		return env[2+t.op]
	case 'u':
		v := floatEval(t.l, env, regroupOK)
		if t.op == 0 {
			return -v
		}
		return v * v
	case 'b':
		x, y := floatEval(t.l, env, regroupOK), floatEval(t.r, env, regroupOK)
		if (t.op == 3 || t.op == 5) && t.l.k == 'b' && t.l.op == t.op {
			// chain (p op q) op y: every re-association must be exact
			ops := chainOperands(t, env, regroupOK)
			if !orderIndependent(t.op, ops) {
				*regroupOK = false
			}
		}
		return floatApply(t.op, x, y)
	case 'i':
		if floatEval(t.c, env, regroupOK) != 0 {
			return floatEval(t.l, env, regroupOK)
		}
		return floatEval(t.r, env, regroupOK)
	case 'l':
		env[2+t.op] = floatEval(t.c, env, regroupOK)
		return floatEval(t.l, env, regroupOK)
	case 'g':
		s, n := floatEval(t.l, env, regroupOK), 1.0
		for _, a := range []*xt{t.r, t.c} {
			if a != nil {
				s += floatEval(a, env, regroupOK)
				n++
			}
		}
		if t.op == 1 {
			return n
		}
		return s
	}
	panic("bad node")
}

func chainOperands(t *xt, env [8]float64, ok *bool) []float64 {
	var out []float64
	for t.k == 'b' && t.l.k == 'b' && t.l.op == t.op {
		out = append(out, floatEval(t.r, env, ok))
		t = t.l
	}
	out = append(out, floatEval(t.r, env, ok), floatEval(t.l, env, ok))
	return out
}

func orderIndependent(op int, v []float64) bool {
	if op == 3 {
		s := 0.0
		for _, x := range v {
			if math.IsNaN(x) || math.IsInf(x, 0) {
				return false
			}
			if x != 0 && (math.Abs(x) < 1.0/(1<<20) || x*(1<<20) != math.Trunc(x*(1<<20))) {
				return false
			}
			s += math.Abs(x)
		}
		return s < (1 << 30)
	}
	// product: odd mantissas multiply below 2^53
	m := 1.0
	for _, x := range v {
		if math.IsNaN(x) || math.IsInf(x, 0) {
			return false
		}
		if x == 0 {
			continue
		}
		fr, _ := math.Frexp(math.Abs(x))
		for fr != math.Trunc(fr) {
			fr *= 2
			if fr > (1 << 53) {
				return false
			}
		}
		m *= fr
		if m >= (1 << 52) {
			return false
		}
		if math.Abs(x) > (1<<40) || math.Abs(x) < 1.0/(1<<40) {
			return false
		}
	}
	return true
}

// token classes for implicit multiplication
func lastTokClass(s string) byte {
	s = strings.TrimRight(s, " ")
	if s == "" {
		return 0
	}
	c := s[len(s)-1]
	switch {
	case c == ')':
		return ')'
	case c >= '0' && c <= '9':
		return 'n'
	case c >= 'a' && c <= 'z':
		return 'i'
	}
	return 0
}

func firstTokClass(s string) byte {
	if s == "" {
		return 0
	}
	c := s[0]
	switch {
	case c == '(':
		return '('
	case c >= '0' && c <= '9':
		return 'n'
	case c >= 'a' && c <= 'z':
		return 'i'
	}
	return 0
}

// floatRender: mode 0 minimal, 1 full parentheses, 2 minimal with implicit multiplication where lexically possible
func floatRender(t *xt, mode int) string {
	switch t.k {
	case 'a':
		return floatAtoms[t.op]
	case 'x':
		return letNames[t.op]
	case 'u':
		if t.op == 1 {
			return "sqr(" + floatRender(t.l, mode) + ")"
		}
		in := floatRender(t.l, mode)
		if (t.l.k == 'b' && (t.l.op <= fMinus || mode == 1)) || t.l.k == 'i' || t.l.k == 'l' {
			in = "(" + in + ")"
		}
		return "-" + in
	case 'b':
		side := func(ch *xt, right bool) string {
			s := floatRender(ch, mode)
			p := false
			switch ch.k {
			case 'i', 'l':
				p = true
			case 'u':
				if ch.op == 0 && (t.op > fMinus || mode == 1) {
					p = true
				}
			case 'b':
				if mode == 1 {
					p = true
				} else if right {
					p = ch.op <= t.op
				} else {
					p = ch.op < t.op
				}
			}
			if p {
				return "(" + s + ")"
			}
			return s
		}
		l, r := side(t.l, false), side(t.r, true)
		if (mode == 2 || mode == 3) && t.op == 5 {
			lc, rc := lastTokClass(l), firstTokClass(r)
			if (lc == 'n' || lc == 'i' || lc == ')') && (rc == 'n' || rc == 'i' || rc == '(') {
				// mode 3: no blank either, where the two stay separate tokens and no call is written
				if mode == 3 && ((lc == 'n' && (rc == '(' || rc == 'i')) || (lc == ')' && (rc == '(' || rc == 'i' || rc == 'n'))) {
					return l + r
				}
				return l + " " + r
			}
		}
		return l + floatOps[t.op] + r
	case 'i':
		return "if " + floatRender(t.c, mode) + " then " + floatRender(t.l, mode) + " else " + floatRender(t.r, mode)
	case 'l':
		return "let " + letNames[t.op] + "=" + floatRender(t.c, mode) + ";" + floatRender(t.l, mode)
	case 'g':
		s := goFuncNames[t.op] + "(" + floatRender(t.l, mode)
		for _, a := range []*xt{t.r, t.c} {
			if a != nil {
				s += "," + floatRender(a, mode)
			}
		}
		return s + ")"
	}
	panic("bad node")
}

// variadic functions registered with AddGoFunction (they receive their arguments as a slice)
var goFuncNames = []string{"sum", "count"}

// randGoCall: a call of a variadic function with 1..3 arguments that are small trees, let chains or - nested -
// further calls (so that calls follow deeper evaluations on the same stack).
func randGoCall(r interface {
	IntN(int) int
	Int64N(int64) int64
}, t []int64, depth int) *xt {
	arg := func() *xt {
		switch {
		case depth > 0 && r.IntN(3) == 0:
			return randGoCall(r, t, depth-1)
		case r.IntN(6) == 0:
			return randLets(r, t, 6, 8, 2)
		}
		n := r.IntN(3)
		return unrank(t, n, r.Int64N(t[n]), 6, 8, 2)
	}
	g := &xt{k: 'g', op: r.IntN(2), l: arg()}
	if r.IntN(4) > 0 {
		g.r = arg()
		if r.IntN(2) == 0 {
			g.c = arg()
		}
	}
	return g
}

// ---------- plan ----------

type c19seg struct {
	name  string
	cases int64 // number of wk cases in this segment
}

type c19plan struct {
	segs     []c19seg
	boolMaxN int
	fltMaxN  int
	block    int64
	boolT    []int64
	boolT6   []int64 // with let variable as an extra atom
	fltT     []int64
	fltT7    []int64
	ifMax    int
	letMax   int
	samples  int64
}

func mkC19Plan(tier string) *c19plan {
	p := &c19plan{block: 2000}
	p.boolT = treeCounts(8, 5, 4, 1)
	p.boolT6 = treeCounts(4, 6, 4, 1)
	p.fltT = treeCounts(6, 6, 8, 2)
	p.fltT7 = treeCounts(4, 7, 8, 2)
	if tier == "thorough" {
		p.boolMaxN, p.fltMaxN, p.ifMax, p.letMax, p.samples = 4, 3, 2, 2, 400
	} else {
		p.boolMaxN, p.fltMaxN, p.ifMax, p.letMax, p.samples = 3, 2, 1, 1, 60
	}
	blocks := func(n int64) int64 { return (n + p.block - 1) / p.block }
	for n := 0; n <= p.boolMaxN; n++ {
		p.segs = append(p.segs, c19seg{fmt.Sprintf("bool-exh-%d", n), blocks(p.boolT[n])})
	}
	p.segs = append(p.segs, c19seg{"bool-if", blocks(p.ifCount(p.boolT, p.ifMax))})
	p.segs = append(p.segs, c19seg{"bool-let", blocks(p.letCount(p.boolT, p.boolT6, p.letMax))})
	p.segs = append(p.segs, c19seg{"bool-sampled", p.samples})
	p.segs = append(p.segs, c19seg{"bool-lets", p.samples})
	for n := 0; n <= p.fltMaxN; n++ {
		p.segs = append(p.segs, c19seg{fmt.Sprintf("float-exh-%d", n), blocks(p.fltT[n])})
	}
	p.segs = append(p.segs, c19seg{"float-if", blocks(p.ifCount(p.fltT, p.ifMax-1))})
	p.segs = append(p.segs, c19seg{"float-let", blocks(p.letCount(p.fltT, p.fltT7, p.letMax-1))})
	p.segs = append(p.segs, c19seg{"float-sampled", p.samples})
	p.segs = append(p.segs, c19seg{"float-lets", p.samples})
	p.segs = append(p.segs, c19seg{"float-gofunc", p.samples})
	return p
}

// if-forms: (cond, then, else) with ops(c)+ops(t)+ops(e) <= max
func ifShapes(max int) [][3]int {
	var out [][3]int
	for s := 0; s <= max; s++ {
		for a := 0; a <= s; a++ {
			for b := 0; a+b <= s; b++ {
				out = append(out, [3]int{a, b, s - a - b})
			}
		}
	}
	return out
}

func (p *c19plan) ifCount(t []int64, max int) int64 {
	if max < 0 {
		max = 0
	}
	var n int64
	for _, sh := range ifShapes(max) {
		n += t[sh[0]] * t[sh[1]] * t[sh[2]]
	}
	return n
}

func (p *c19plan) ifUnrank(t []int64, max int, k int64, atoms, nb, nu int64) *xt {
	if max < 0 {
		max = 0
	}
	for _, sh := range ifShapes(max) {
		n := t[sh[0]] * t[sh[1]] * t[sh[2]]
		if k < n {
			c := k / (t[sh[1]] * t[sh[2]])
			rem := k % (t[sh[1]] * t[sh[2]])
			return &xt{k: 'i', c: unrank(t, sh[0], c, atoms, nb, nu), l: unrank(t, sh[1], rem/t[sh[2]], atoms, nb, nu), r: unrank(t, sh[2], rem%t[sh[2]], atoms, nb, nu)}
		}
		k -= n
	}
	panic("if unrank")
}

// let-forms: let x=<value with <=1 ops>; <body with <= max ops over atoms+x>
func (p *c19plan) letCount(t, tx []int64, max int) int64 {
	if max < 0 {
		max = 0
	}
	var body int64
	for n := 0; n <= max; n++ {
		body += tx[n]
	}
	return (t[0] + t[1]) * body
}

func (p *c19plan) letUnrank(t, tx []int64, max int, k int64, atoms, nb, nu int64) *xt {
	if max < 0 {
		max = 0
	}
	var body int64
	for n := 0; n <= max; n++ {
		body += tx[n]
	}
	vi, bi := k/body, k%body
	var val *xt
	if vi < t[0] {
		val = unrank(t, 0, vi, atoms, nb, nu)
	} else {
		val = unrank(t, 1, vi-t[0], atoms, nb, nu)
	}
	var b *xt
	for n := 0; n <= max; n++ {
		if bi < tx[n] {
			b = unrank(tx, n, bi, atoms+1, nb, nu)
			break
		}
		bi -= tx[n]
	}
	markLetVar(b, int(atoms))
	return &xt{k: 'l', c: val, l: b}
}

func markLetVar(t *xt, idx int) {
	if t == nil {
		return
	}
	if t.k == 'a' && t.op == idx {
		t.k, t.op = 'x', 0
	}
	markLetVar(t.l, idx)
	markLetVar(t.r, idx)
	markLetVar(t.c, idx)
}

func (c19) Plan(tier string) wk.Plan {
	p := mkC19Plan(tier)
	var n int64
	for _, s := range p.segs {
		n += s.cases
	}
	return wk.Plan{
		Level: "exploration", Cases: n, Chunk: 8, Configs: single("seq", 16), CaseBudget: 300,
		Rule:  fmt.Sprintf("every bool expression with <=%d operator nodes over {a,b,c,true,false} x all 8 assignments; every float expression with <=%d operator nodes over {a,b,0,1,2,0.5}, 8 binary operators, unary minus, sqr and implicit multiplication x 64 assignments; if-forms (<=%d operator nodes in cond+then+else) and single-let forms enumerated completely; larger trees (bool to 8 nodes, float to 6) chains of 2-3 nested lets (values over earlier variables, used and unused variables) and nested calls of variadic Go functions (AddGoFunction) sampled; implicit multiplication written with and without blank; each expression in minimal and full parenthesisation, optimizer on and off, plus one rotating variant of the commutative flags. A wk case is a block of %d consecutive expressions; evaluations counts expressions. Non-trivial = at least one operator node; enumerated expressions are distinct by construction, sampled ones are hashed.", p.boolMaxN, p.fltMaxN, p.ifMax, p.block),
		Floor: 1000,
		Assumptions: []string{
			"harness-built generators mirror example/bool.go and example/minimal.go (those package variables are unexported); '=' of the float domain is declared non-commutative because the flag licenses re-association",
			"float results are compared with == (so +0 equals -0) or both NaN; with the optimizer on, assignments under which a chain of a commutative operator cannot be re-associated exactly are compared within 1e-12 relative",
			"exhaustive:true refers to the bounds named in the rule of this tier (thorough: bool <=4 nodes, float <=3 nodes)",
		},
	}
}

var (
	c19bool  [16][2]*boolGen
	c19float [4][2]*floatGen
)

func getBoolGen(flags int, opt bool) *boolGen {
	i := 0
	if opt {
		i = 1
	}
	if c19bool[flags][i] == nil {
		c19bool[flags][i] = newBoolGen(flags, opt)
	}
	return c19bool[flags][i]
}

func getFloatGen(flags int, opt bool) *floatGen {
	i := 0
	if opt {
		i = 1
	}
	if c19float[flags][i] == nil {
		c19float[flags][i] = newFloatGen(flags, opt)
	}
	return c19float[flags][i]
}

func (c19) Run(c *wk.Case) {
	p := mkC19Plan(c.Tier)
	idx := c.Index
	for _, s := range p.segs {
		if idx < s.cases {
			runC19Seg(c, p, s.name, idx)
			return
		}
		idx -= s.cases
	}
}

func runC19Seg(c *wk.Case, p *c19plan, seg string, blk int64) {
	from := blk * p.block
	var evals, nontriv int64
	checkBool := func(t *xt, k int64, hashed bool) {
		evals++
		variant := int(k % 16)
		gens := []*boolGen{getBoolGen(15, true), getBoolGen(15, false), getBoolGen(variant, true)}
		for mode := 0; mode < 2; mode++ {
			var sb strings.Builder
			boolRender(&sb, t, mode)
			src := sb.String()
			for _, g := range gens {
				f, _, err := g.g.Generate(src, "a", "b", "c")
				if err != nil {
					c.Violation("bool-generate-error", fmt.Sprintf("%s: Generate(%q) failed: %v", g.name, src, err), map[string]any{"src": src, "gen": g.name})
					return
				}
				for as := 0; as < 8; as++ {
					env := [9]bool{as&1 != 0, as&2 != 0, as&4 != 0}
					want := boolEval(t, env)
					got, err := f.Eval(env[0], env[1], env[2])
					if err != nil || got != want {
						c.Violation("bool-wrong-value", fmt.Sprintf("%s: %q with a=%v b=%v c=%v gives %v (err %v), operators' definitions give %v", g.name, src, env[0], env[1], env[2], got, err, want),
							map[string]any{"src": src, "gen": g.name, "a": env[0], "b": env[1], "c": env[2], "got": got, "want": want})
						return
					}
				}
			}
			if t.k != 'a' {
				if hashed {
					if mode == 0 {
						c.NonTrivial(wk.Hash64("b", src))
					}
				}
			}
		}
		if t.k != 'a' && !hashed {
			nontriv++
		}
	}
	checkFloat := func(t *xt, k int64, hashed bool) {
		evals++
		variant := int(k % 4)
		gens := []*floatGen{getFloatGen(3, true), getFloatGen(3, false), getFloatGen(variant, true)}
		for mode := 0; mode < 4; mode++ {
			src := floatRender(t, mode)
			for _, g := range gens {
				f, _, err := g.g.Generate(src, "a", "b")
				if err != nil {
					c.Violation("float-generate-error", fmt.Sprintf("%s: Generate(%q) failed: %v", g.name, src, err), map[string]any{"src": src, "gen": g.name})
					return
				}
				for _, av := range floatGrid {
					for _, bv := range floatGrid {
						ok := true
						want := floatEval(t, [8]float64{av, bv}, &ok)
						got, err := f.Eval(av, bv)
						same := got == want || (math.IsNaN(got) && math.IsNaN(want))
						if !same && g.opt && !ok && err == nil {
							// re-association of a commutative chain is not exact here: rounding tolerance only
							if !math.IsNaN(got) && !math.IsNaN(want) && !math.IsInf(want, 0) && math.Abs(got-want) <= 1e-12*math.Max(math.Abs(want), 1e-300) {
								c.Count("float_regroup_tolerance_used", 1)
								continue
							}
							if math.IsNaN(want) || math.IsInf(want, 0) || math.IsNaN(got) || math.IsInf(got, 0) {
								c.Count("float_regroup_nonfinite_unclaimed", 1)
								continue
							}
						}
						if err != nil || !same {
							c.Violation("float-wrong-value", fmt.Sprintf("%s: %q with a=%v b=%v gives %v (err %v), operators' definitions give %v", g.name, src, av, bv, got, err, want),
								map[string]any{"src": src, "gen": g.name, "a": av, "b": bv, "got": fmt.Sprint(got), "want": fmt.Sprint(want)})
							return
						}
					}
				}
			}
			if t.k != 'a' && hashed && mode == 0 {
				c.NonTrivial(wk.Hash64("f", src))
			}
		}
		if t.k != 'a' && !hashed {
			nontriv++
		}
	}
	sampleOnce := func(s string) {
		if blk == 0 {
			c.Sample(map[string]any{"segment": seg, "first_expression_of_block": s})
		}
	}
	rangeDo := func(total int64, f func(k int64)) {
		to := from + p.block
		if to > total {
			to = total
		}
		for k := from; k < to; k++ {
			f(k)
		}
	}
	switch {
	case strings.HasPrefix(seg, "bool-exh-"):
		n, _ := strconv.Atoi(seg[len("bool-exh-"):])
		rangeDo(p.boolT[n], func(k int64) {
			t := unrank(p.boolT, n, k, 5, 4, 1)
			if k == from {
				var sb strings.Builder
				boolRender(&sb, t, 0)
				sampleOnce(sb.String())
			}
			checkBool(t, k, false)
		})
	case seg == "bool-if":
		rangeDo(p.ifCount(p.boolT, p.ifMax), func(k int64) {
			t := p.ifUnrank(p.boolT, p.ifMax, k, 5, 4, 1)
			// place some of them as operands
			switch k % 3 {
			case 1:
				t = &xt{k: 'b', op: int(k/3) % 4, l: &xt{k: 'a', op: int(k/12) % 5}, r: t}
			case 2:
				t = &xt{k: 'b', op: int(k/3) % 4, l: t, r: &xt{k: 'a', op: int(k/12) % 5}}
			}
			if k == from {
				var sb strings.Builder
				boolRender(&sb, t, 0)
				sampleOnce(sb.String())
			}
			checkBool(t, k, false)
		})
	case seg == "bool-let":
		rangeDo(p.letCount(p.boolT, p.boolT6, p.letMax), func(k int64) {
			t := p.letUnrank(p.boolT, p.boolT6, p.letMax, k, 5, 4, 1)
			if k == from {
				var sb strings.Builder
				boolRender(&sb, t, 0)
				sampleOnce(sb.String())
			}
			checkBool(t, k, false)
		})
	case seg == "bool-sampled":
		for i := int64(0); i < p.block/4; i++ {
			n := 4 + int(c.Rng.IntN(5))
			if c.Tier == "thorough" && n == 4 {
				n = 5
			}
			k := c.Rng.Int64N(p.boolT[n])
			t := unrank(p.boolT, n, k, 5, 4, 1)
			if i == 0 {
				var sb strings.Builder
				boolRender(&sb, t, 0)
				sampleOnce(sb.String())
			}
			checkBool(t, k, true)
		}
	case seg == "bool-lets":
		for i := int64(0); i < p.block/4; i++ {
			t := randLets(c.Rng, p.boolT, 5, 4, 1)
			if i == 0 {
				var sb strings.Builder
				boolRender(&sb, t, 0)
				sampleOnce(sb.String())
			}
			checkBool(t, int64(c.Rng.IntN(1<<20)), true)
		}
	case seg == "float-gofunc":
		for i := int64(0); i < p.block/4; i++ {
			t := randGoCall(c.Rng, p.fltT, 2)
			switch c.Rng.IntN(3) {
			case 0:
				t = &xt{k: 'b', op: 3 + c.Rng.IntN(3), l: t, r: randGoCall(c.Rng, p.fltT, 1)}
			case 1:
				t = &xt{k: 'b', op: 3 + c.Rng.IntN(3), l: unrank(p.fltT, 1, c.Rng.Int64N(p.fltT[1]), 6, 8, 2), r: t}
			}
			if i == 0 {
				sampleOnce(floatRender(t, 0))
			}
			checkFloat(t, int64(c.Rng.IntN(1<<20)), true)
		}
	case seg == "float-lets":
		for i := int64(0); i < p.block/4; i++ {
			t := randLets(c.Rng, p.fltT, 6, 8, 2)
			if i == 0 {
				sampleOnce(floatRender(t, 0))
			}
			checkFloat(t, int64(c.Rng.IntN(1<<20)), true)
		}
	case strings.HasPrefix(seg, "float-exh-"):
		n, _ := strconv.Atoi(seg[len("float-exh-"):])
		rangeDo(p.fltT[n], func(k int64) {
			t := unrank(p.fltT, n, k, 6, 8, 2)
			if k == from {
				sampleOnce(floatRender(t, 2))
			}
			checkFloat(t, k, false)
		})
	case seg == "float-if":
		rangeDo(p.ifCount(p.fltT, p.ifMax-1), func(k int64) {
			t := p.ifUnrank(p.fltT, p.ifMax-1, k, 6, 8, 2)
			switch k % 3 {
			case 1:
				t = &xt{k: 'b', op: int(k/3) % 8, l: &xt{k: 'a', op: int(k/24) % 6}, r: t}
			case 2:
				t = &xt{k: 'b', op: int(k/3) % 8, l: t, r: &xt{k: 'a', op: int(k/24) % 6}}
			}
			if k == from {
				sampleOnce(floatRender(t, 0))
			}
			checkFloat(t, k, false)
		})
	case seg == "float-let":
		rangeDo(p.letCount(p.fltT, p.fltT7, p.letMax-1), func(k int64) {
			t := p.letUnrank(p.fltT, p.fltT7, p.letMax-1, k, 6, 8, 2)
			if k == from {
				sampleOnce(floatRender(t, 0))
			}
			checkFloat(t, k, false)
		})
	case seg == "float-sampled":
		for i := int64(0); i < p.block/10; i++ {
			n := p.fltMaxN + 1 + int(c.Rng.IntN(6-p.fltMaxN))
			k := c.Rng.Int64N(p.fltT[n])
			t := unrank(p.fltT, n, k, 6, 8, 2)
			if i == 0 {
				sampleOnce(floatRender(t, 2))
			}
			checkFloat(t, k, true)
		}
	}
	c.Evals(evals)
	c.NonTrivialN(nontriv)
	c.Count("segment_"+seg, evals)
}
