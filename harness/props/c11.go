package props

// C11 — one generated function may be evaluated concurrently from many goroutines.
// Monitors: M-race (race-detector build; driver parses the logs) + M-ref per
// goroutine. Every round uses a FRESH Generate (first-use publication races
// disappear after a sequential warm-up), releases 2..16 goroutines through a
// barrier and compares each outcome with the reference outcome of its own
// arguments. The verif hook points in List.Eval / List.Append are used as
// optional delay points that widen the window.

import (
	"fmt"
	"strings"
	"sync"
	"sync/atomic"
	"time"

	"github.com/hneemann/parser2/value"

	"verif/bridge"
	"verif/gen"
	"verif/ref"
	"verif/wk"
)

type c11 struct{}

func init() { register("C11", c11{}) }

func (c11) Plan(tier string) wk.Plan {
	n := int64(1200)
	cfgs := []wk.Config{
		{Name: "gmp4", CPUs: 4, Race: true, Shards: 2},
		{Name: "gmp16", CPUs: 8, GoMaxProcs: 16, Race: true, Shards: 1},
	}
	if tier == "thorough" {
		n = 20000
		cfgs = []wk.Config{
			{Name: "gmp2", CPUs: 2, Race: true, Shards: 2},
			{Name: "gmp4", CPUs: 4, Race: true, Shards: 2},
			{Name: "gmp16", CPUs: 6, GoMaxProcs: 16, Race: true, Shards: 1},
		}
	}
	return wk.Plan{
		Level: "exploration", Cases: n, Chunk: 10, Configs: cfgs, CaseBudget: 120,
		Rule:          "case = one program (templates around constant lazy lists forced at run time - l[a], l.append(a), l.size()+a, l+l, closures constants, folded createInterpolation; constant maps of 1..45 entries in every representation looked into by key at run time; constant lists/maps used by every argument-dependent operation - mixed with generated programs as in C10, with a medium share of constants) x 6 rounds; every round calls Generate afresh (no sequential warm-up), two of the six rounds on a cold generator (nothing was ever evaluated with it; 64 per worker process, created before the first evaluation), then 2..16 goroutines are released by a barrier and evaluate the one function with equal or different arguments (own argument objects per call), forcing their results; in half of the rounds the hook points in List.Eval/List.Append sleep 20-200us to widen the window. Refuting events: a race-detector report with a parser2/iterator frame; a goroutine's outcome differs from the reference outcome of its own arguments. Non-trivial = program with a constant that is a lazy list or closure (measured on the optimised AST) and >= 4 goroutines; distinct by program text.",
		Floor:         60,
		FloorCounters: map[string]int64{"concurrent_evaluations": 3000, "hook_delay_points_hit": 50},
		Assumptions:   []string{"the API-level specification is a pure function of the arguments, so every operation is checked against f(its own input); no linearizability search is needed", "race detection covers executed accesses only"},
	}
}

var c11delay atomic.Int64 // microseconds to sleep in the hook points (0 = off)
var c11hits atomic.Int64
var c11hookOnce sync.Once

func c11Templates(r interface{ IntN(int) int }) (*ref.Node, []string, []*gen.Ty) {
	a := ref.Id("a")
	lazyL := func(n int64) *ref.Node {
		id := ref.Id
		src := ref.Static("numbers", ref.Int(n))
		var l *ref.Node
		// the constant lazy list: built from every kind of stage (stages that call closures with several
		// arguments use the stack they are given), optionally cut by top/skip, never evaluated at Generate time
		switch r.IntN(9) {
		case 0:
			l = ref.Method(src, "number", ref.Clo([]string{"i", "x"}, ref.Bin("+", ref.Bin("*", id("i"), ref.Int(3)), id("x"))))
		case 1:
			l = ref.Method(src, "iir", ref.Clo([]string{"x"}, id("x")), ref.Clo([]string{"x", "p"}, ref.Bin("+", id("x"), ref.Bin("%", id("p"), ref.Int(7)))))
		case 2:
			l = ref.Method(src, "combine", ref.Clo([]string{"p", "q"}, ref.Bin("+", id("p"), ref.Bin("*", id("q"), ref.Int(2)))))
		case 3:
			l = ref.Method(ref.ListN(ref.Int(1), ref.Int(2)), "cross", ref.Static("numbers", ref.Int(n/2+1)), ref.Clo([]string{"p", "q"}, ref.Bin("+", ref.Bin("*", id("p"), ref.Int(100)), id("q"))))
		case 4:
			l = ref.Method(src, "merge", ref.Method(ref.Static("numbers", ref.Int(n)), "map", ref.Clo([]string{"x"}, ref.Bin("*", id("x"), ref.Int(2)))), ref.Clo([]string{"p", "q"}, ref.Bin("<", id("p"), id("q"))))
		case 5:
			l = ref.Method(src, "compact", ref.Clo([]string{"p", "q"}, ref.Bin("=", ref.Bin("/", id("p"), ref.Int(2)), ref.Bin("/", id("q"), ref.Int(2)))))
		default:
			l = ref.Method(src, "map", ref.Clo([]string{"x"}, ref.Bin("*", id("x"), ref.Int(2))))
		}
		switch r.IntN(4) {
		case 0:
			l = ref.Method(l, "top", ref.Int(n-2))
		case 1:
			l = ref.Method(l, "skip", ref.Int(1))
		}
		return l
	}
	L := ref.Id("l")
	idx := ref.Bin("%", ref.Static("abs", a), ref.Int(5))
	var body *ref.Node
	switch k := r.IntN(19); k {
	case 17, 18:
		// one call site that meets receivers of different types in concurrent evaluations
		v := ref.Id("v")
		body := ref.ListN(ref.Method(v, "size"), ref.Method(ref.Method(v, "string"), "len"), ref.Try(ref.Method(ref.Method(v, "map", ref.Clo([]string{"q"}, ref.Int(1))), "size"), ref.Int(-1)))
		if k == 18 {
			body = ref.ListN(ref.Method(v, "string"), ref.Try(ref.Method(v, "size"), ref.Int(-1)), ref.Try(ref.Method(v, "len"), ref.Int(-2)), ref.Try(ref.Method(v, "abs"), ref.Int(-3)))
		}
		return body, []string{"v"}, []*gen.Ty{nil} // nil: values of several types, see the pool in Run
	case 16:
		// random numbers: the outcome is not comparable, but evaluations must not race on the generator's state
		return ref.Method(ref.Method(ref.Static("numbers", ref.Int(200)), "map", ref.Clo([]string{"i"}, ref.Bin("+", ref.Static("random", ref.Int(6)), ref.Static("random")))), "sum"), []string{"a"}, []*gen.Ty{gen.TInt}
	case 10, 11, 12, 13, 14, 15:
		// a constant map (folded into one object shared by all evaluations) of 1..45 entries - sizes around every
		// representation threshold - that is looked into by key only at run time
		n := []int{1, 2, 7, 8, 9, 16, 19, 20, 21, 22, 25, 32, 33, 45}[r.IntN(14)]
		var keys []string
		var vals []*ref.Node
		for i := 0; i < n; i++ {
			keys = append(keys, fmt.Sprintf("k%d", i))
			vals = append(vals, ref.Int(int64(i*20)))
		}
		var m *ref.Node = ref.MapN(keys, vals)
		switch r.IntN(4) {
		case 1:
			m = ref.Method(m, "eval")
		case 2:
			m = ref.Bin("+", m, ref.MapN([]string{"zz"}, []*ref.Node{ref.Int(-1)}))
		case 3:
			m = ref.Method(m, "replace", ref.Clo([]string{"q"}, ref.MapN([]string{"k0"}, []*ref.Node{ref.Int(5)})))
		}
		key := ref.Bin("+", ref.Str("k"), ref.Static("string", ref.Bin("%", ref.Static("abs", a), ref.Int(int64(n)))))
		M := ref.Id("m")
		switch k {
		case 10:
			body = ref.Bin("+", ref.Method(M, "get", key), ref.Int(1))
		case 11:
			body = ref.ListN(ref.Method(M, "isAvail", key), ref.Bin("~", key, M), ref.Method(M, "get", key), ref.Member(M, "k0"))
		case 12:
			body = ref.ListN(ref.Method(M, "get", key), ref.Method(M, "size"), ref.Method(ref.Method(M, "list"), "size"))
		case 13:
			body = ref.Method(ref.Method(M, "put", ref.Str("new"), a), "get", key)
		case 14:
			// nothing looks into the constant before run time: the map reaches its reader as a closure argument
			body = ref.Bin("+", ref.Call(ref.Clo([]string{"q"}, ref.Method(ref.Id("q"), "get", key)), M), ref.Int(1))
		default:
			body = ref.ListN(ref.Bin("~", key, M), ref.Call(ref.Clo([]string{"q", "w"}, ref.Bin("~", ref.Id("w"), ref.Id("q"))), M, key))
		}
		return ref.Let("m", m, body), []string{"a"}, []*gen.Ty{gen.TInt}
	case 9:
		// a folded closure constant with internal state candidates: interpolation over constant points
		var pts []*ref.Node
		for i := 0; i < 8; i++ {
			pts = append(pts, ref.MapN([]string{"x", "y"}, []*ref.Node{ref.Int(int64(i)), ref.Int(int64((i * 7) % 5))}))
		}
		fdef := ref.Method(ref.ListN(pts...), "createInterpolation", ref.Clo([]string{"p"}, ref.Member(ref.Id("p"), "x")), ref.Clo([]string{"p"}, ref.Member(ref.Id("p"), "y")))
		body := ref.Method(ref.Method(ref.Static("numbers", ref.Int(60)), "map", ref.Clo([]string{"i"}, ref.Call(ref.Id("f"), ref.Bin("+", ref.Bin("%", ref.Static("abs", a), ref.Int(6)), ref.Bin("/", ref.Id("i"), ref.Int(64)))))), "sum")
		return ref.Let("f", fdef, body), []string{"a"}, []*gen.Ty{gen.TInt}
	case 0:
		body = ref.Bin("+", ref.Index(L, idx), ref.Method(ref.Method(L, "append", a), "size"))
	case 1:
		body = ref.Let("m", ref.Method(L, "append", a), ref.ListN(ref.Index(ref.Id("m"), ref.Int(10)), ref.Method(ref.Id("m"), "size"), ref.Index(L, ref.Int(3))))
	case 2:
		body = ref.Bin("+", ref.Method(L, "size"), a)
	case 3:
		body = ref.Method(ref.Bin("+", L, ref.Method(L, "append", a)), "string")
	case 4:
		body = ref.Method(ref.Method(ref.Method(L, "append", a), "append", ref.Bin("+", a, ref.Int(1))), "string")
	case 5:
		body = ref.Method(ref.Method(L, "top", ref.Int(3)), []string{"sum", "mean"}[r.IntN(2)])
	case 6:
		body = ref.ListN(ref.Method(L, "first"), ref.Method(L, "last"), ref.Bin("~", a, L), ref.Method(L, "reverse"))
	case 7:
		// consumers that do not evaluate (store) the list: every evaluation iterates the shared lazy constant
		switch r.IntN(3) {
		case 0:
			body = ref.Method(ref.Method(L, "map", ref.Clo([]string{"y"}, ref.Bin("+", ref.Id("y"), a))), "sum")
		case 1:
			body = ref.Method(L, "mapReduce", a, ref.Clo([]string{"s", "y"}, ref.Bin("+", ref.Id("s"), ref.Id("y"))))
		default:
			body = ref.Method(ref.Method(L, "accept", ref.Clo([]string{"y"}, ref.Bin("!=", ref.Id("y"), a))), "reduce", ref.Clo([]string{"p", "q"}, ref.Bin("+", ref.Id("p"), ref.Id("q"))))
		}
	default:
		body = ref.Method(ref.Method(L, "set", idx, a), "string")
	}
	return ref.Let("l", lazyL(int64(10+r.IntN(8))), body), []string{"a"}, []*gen.Ty{gen.TInt}
}

var c11cold []*value.FunctionGenerator

func (c11) Run(c *wk.Case) {
	c11hookOnce.Do(func() {
		// Cold generators are all created here, before this process evaluates anything: value.New() assigns the
		// package-level type ids, so creating a generator while goroutines of an earlier evaluation are still
		// winding down would be a race of the harness's own making (outside what C11 quantifies over).
		for i := 0; i < 64; i++ {
			c11cold = append(c11cold, value.New())
		}
		value.VerifPoint = func(name string, a, b int) {
			if d := c11delay.Load(); d > 0 && name != "multiUse.runConsumer" {
				c11hits.Add(1)
				time.Sleep(time.Duration(d) * time.Microsecond)
			}
		}
	})
	vl := getPlainVlang()
	g := vl.opt
	var prog *ref.Node
	var argNames []string
	var p *gen.Program
	if c.Index%4 == 3 {
		// constant containers used by operations that depend on the arguments (as in C10)
		p = c10ConstProgram(c.Rng, false)
		prog, argNames = p.Root, p.ArgNames
	} else if c.Index%4 != 2 {
		var types []*gen.Ty
		prog, argNames, types = c11Templates(c.Rng)
		p = &gen.Program{Root: prog, ArgNames: argNames, ArgTypes: types}
	} else {
		p = gen.GenProgram(c.Rng, c10dials, 1+c.Rng.IntN(2))
		prog, argNames = p.Root, p.ArgNames
	}
	src, ok := safeSource(prog, ref.PrintOpts{})
	if !ok {
		c.Inconclusive("generator-bug", "let in a forbidden position")
		return
	}
	c.Logf("program: %s", src)
	in := ref.NewInterp()
	type job struct {
		refArgs []ref.Value
		wv      ref.Value
		we      *ref.Err
		rae     bool
		iso     *bridge.Outcome // outcome of an isolated evaluation (other function instance), where the model leaves the outcome open
	}
	var pool []job
	poly := []ref.Value{ref.NewList(int64(1), int64(2), int64(3)), ref.MapOf("a", int64(1), "b", int64(2)), "hello", int64(42), 2.5, ref.NewList()}
	for i := 0; i < 6; i++ {
		var tu []ref.Value
		if len(p.ArgTypes) == 1 && p.ArgTypes[0] == nil {
			tu = []ref.Value{poly[i]}
		} else {
			tu = genArgs(c.Rng, p)
		}
		wv, we, rae := refEval(in, prog, argNames, tu)
		if we != nil && we.Budget {
			continue
		}
		if we != nil && we.Unspec {
			// the property compares with the corresponding isolated evaluation: use a separately generated function
			fi, err, pan := generate(g, src, argNames)
			if err != nil || pan != nil {
				continue
			}
			o := evalReal(fi, realArgsVariant(tu, bridge.Variant{}))
			pool = append(pool, job{refArgs: tu, iso: &o})
			continue
		}
		pool = append(pool, job{tu, wv, we, rae, nil})
	}
	if len(pool) == 0 {
		return
	}
	total := 0
	maxG := 0
	for round := 0; round < 6; round++ {
		gr := g
		if round%3 == 2 && len(c11cold) > 0 {
			// a generator that has never evaluated anything: whatever the generator itself sets up on first use
			// at run time (operator or method lookups, type tables) is met by all goroutines at once
			gr, c11cold = c11cold[len(c11cold)-1], c11cold[:len(c11cold)-1]
			c.Count("rounds_on_a_cold_generator", 1)
		}
		f, err, pan := generate(gr, src, argNames)
		if pan != nil {
			c.Violation("generate-panic", fmt.Sprintf("Generate(%q) panics: %v", src, pan), map[string]any{"src": src})
			return
		}
		if err != nil {
			return
		}
		ng := 2 + c.Rng.IntN(15)
		if ng > maxG {
			maxG = ng
		}
		if round%2 == 1 {
			c11delay.Store(int64(20 + c.Rng.IntN(180)))
		} else {
			c11delay.Store(0)
		}
		same := c.Rng.IntN(3) == 0
		jobs := make([]job, ng)
		for i := range jobs {
			if same {
				jobs[i] = pool[0]
			} else {
				jobs[i] = pool[c.Rng.IntN(len(pool))]
			}
		}
		outs := make([]bridge.Outcome, ng)
		var wg sync.WaitGroup
		var ready sync.WaitGroup
		start := make(chan struct{})
		// with equal arguments the host may as well pass the very same slice to every call - one that has
		// room to spare behind its last element (scalar arguments only: a lazy list argument is not shared)
		var sharedArgs []value.Value
		if same && round%2 == 0 {
			scalar := true
			for _, a := range jobs[0].refArgs {
				switch a.(type) {
				case int64, float64, string, bool:
				default:
					scalar = false
				}
			}
			if scalar {
				sharedArgs = append(make([]value.Value, 0, len(jobs[0].refArgs)+8), realArgsVariant(jobs[0].refArgs, bridge.Variant{})...)
				c.Count("rounds_with_one_shared_argument_slice", 1)
			}
		}
		for i := 0; i < ng; i++ {
			wg.Add(1)
			ready.Add(1)
			// own argument objects per call
			ra := realArgsVariant(jobs[i].refArgs, bridge.Variant{LazyLists: i%2 == 0})
			if sharedArgs != nil {
				ra = sharedArgs
			}
			go func(i int, ra []value.Value) {
				defer wg.Done()
				ready.Done()
				<-start
				outs[i] = evalReal(f, ra)
			}(i, ra)
		}
		ready.Wait()
		close(start)
		wg.Wait()
		c11delay.Store(0)
		total += ng
		for i := range outs {
			if iso := jobs[i].iso; iso != nil {
				// A program the model leaves open AND with a construct whose order the documentation leaves open
				// (groupBy*, unique*, evaluated maps, random) has no single correct outcome - even whether it fails
				// may depend on that order (a switch over the string form of an evaluated map): such a program is
				// only watched by the race detector.
				if strings.Contains(src, "groupBy") || strings.Contains(src, "unique") || strings.Contains(src, ".eval()") || strings.Contains(src, "random(") {
					c.Count("order_open_programs_not_compared", 1)
					continue
				}
				bad := (iso.Err == nil) != (outs[i].Err == nil)
				why := ""
				// values are compared only if the program has no construct whose order the documentation leaves
				// open (then two correct evaluations may differ): there only ok-vs-error is compared
				orderOpen := strings.Contains(src, "groupBy") || strings.Contains(src, "unique") || strings.Contains(src, ".eval()") || strings.Contains(src, "random(")
				if !bad && iso.Err == nil && !orderOpen {
					ok, d := realEqual(iso.Val, outs[i].Val, false, "")
					bad, why = !ok, d
				}
				if bad {
					c.Violation("concurrent-outcome-differs", fmt.Sprintf("[%s] %q: round %d, goroutine %d of %d with %v: isolated evaluation %s err=%v, concurrent %s err=%v %s", c.Config, src, round, i, ng, describeArgs(jobs[i].refArgs), bridge.Describe(iso.Val), iso.Err, bridge.Describe(outs[i].Val), outs[i].Err, why),
						map[string]any{"src": src, "round": round, "goroutines": ng, "args": describeArgs(jobs[i].refArgs)})
					return
				}
				continue
			}
			outs[i].FloatTol = regroupTol(true, src)
			if v, why := bridge.CompareOutcome(jobs[i].wv, jobs[i].we, jobs[i].rae, outs[i]); v == bridge.Disagree {
				c.Violation("concurrent-outcome-differs", fmt.Sprintf("[%s] %q: round %d, goroutine %d of %d with %v: %s", c.Config, src, round, i, ng, describeArgs(jobs[i].refArgs), why),
					map[string]any{"src": src, "round": round, "goroutines": ng, "args": describeArgs(jobs[i].refArgs), "why": why})
				return
			}
		}
	}
	c.Count("concurrent_evaluations", int64(total))
	c.Count("hook_delay_points_hit", c11hits.Swap(0))
	if maxG >= 4 && c.Index%3 != 2 {
		c.NonTrivial(wk.Hash64(src))
		if c.Index%40 == 0 {
			c.Sample(map[string]any{"program": src, "rounds": 6, "max_goroutines": maxG, "config": c.Config})
		}
	} else if maxG >= 4 && !isConstAST(g, src, argNames) {
		c.NonTrivial(wk.Hash64(src))
	}
}
