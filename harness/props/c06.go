package props

// C06 — lazy list pipelines give the sequential result under every parallel schedule.
// Monitors: M-race (race-detector build of the worker; the driver parses the
// logs), M-ref (reference result), and the cross-configuration differential
// (the driver compares the outcome hash of every pipeline between the 1-CPU
// run - where parallel execution is impossible - and the multi-CPU runs).
// tick() host calls record on which goroutines stage closures ran and in which
// order elements completed.

import (
	"fmt"
	"hash/fnv"
	"sort"
	"strings"
	"sync"
	"time"

	"github.com/hneemann/parser2/funcGen"
	"github.com/hneemann/parser2/value"

	"verif/bridge"
	"verif/gen"
	"verif/ref"
	"verif/wk"
)

type c06 struct{}

func init() { register("C06", c06{}) }

func (c06) Plan(tier string) wk.Plan {
	n := int64(400)
	cfgs := []wk.Config{
		{Name: "cpu1", CPUs: 1, Race: true, Shards: 2},
		{Name: "cpu4", CPUs: 4, Race: true, Shards: 2},
		// one scheduler thread on several CPUs: the dependency still starts its workers (it looks at NumCPU)
		{Name: "cpu4-gmp1", CPUs: 4, GoMaxProcs: 1, Race: true, Shards: 1},
	}
	if tier == "thorough" {
		n = 12000
		cfgs = []wk.Config{
			{Name: "cpu1", CPUs: 1, Race: true, Shards: 4},
			{Name: "cpu2", CPUs: 2, Race: true, Shards: 2},
			{Name: "cpu4", CPUs: 4, Race: true, Shards: 1},
			{Name: "cpu4-gmp16", CPUs: 4, GoMaxProcs: 16, Race: true, Shards: 1},
			{Name: "cpu2-gmp1", CPUs: 2, GoMaxProcs: 1, Race: true, Shards: 1},
		}
	}
	return wk.Plan{
		Level: "exploration", Cases: n, Chunk: 20, Configs: cfgs, CaseBudget: 120, CompareRes: true,
		Rule:          "case = one generated pipeline (G-pipe: source literal / argument list eager or lazy / numbers(n), n in 0..2000 with bias to 0-3 and 11-15; 1-6 lazy stages from map, accept, combine, combine3, combineN, iir, iirCombine, number, compact, cross, merge, top, skip, fsm, +; terminal from reduce, mapReduce, sum, size, string, first, last, single, minMax, visit, order, groupByInt, uniqueInt, present, indexWhere, ~, multiUse, eval) with a cost profile (all cheap / all expensive / one expensive map or accept stage; expensive = delay host function sleeping 250us with per-element jitter so that elements complete out of order) and optionally one failing element (then consumed completely), evaluated 2x under every launch configuration (CPU mask x GOMAXPROCS; mask of 1 CPU forbids the parallel switch). Refuting events: a race-detector report with a parser2/iterator frame; outcome (value, or the fact of failing) differs from the reference model; outcome hash differs between configurations. Non-trivial = pipeline with at least 12 source elements and a closure-calling stage next to a map/accept; distinct by program text. The evidence counts pipelines observed on >= 2 goroutines and distinct element completion orders.",
		Floor:         100,
		FloorCounters: map[string]int64{"pipelines_on_multiple_goroutines": 15, "max_goroutines_in_one_pipeline": 4},
		Assumptions: []string{
			"the dependency decides about parallel execution by wall-clock measurement; the harness forces it with sleeping stage closures and forbids it with a 1-CPU mask, it cannot choose interleavings",
			"the race detector sees executed accesses only; no report = none observed",
		},
	}
}

type tickRec struct {
	mu     sync.Mutex
	gids   map[int64]bool
	order  []int64
	events int
}

var c06tick = &tickRec{gids: map[int64]bool{}}

func (t *tickRec) reset() {
	t.mu.Lock()
	t.gids, t.order, t.events = map[int64]bool{}, nil, 0
	t.mu.Unlock()
}

var c06gen *value.FunctionGenerator

func pipeHost(g *value.FunctionGenerator, rec func(stage, x int64)) {
	g.AddStaticFunction("tick", funcGen.Function[value.Value]{Func: func(st funcGen.Stack[value.Value], cs []value.Value) (value.Value, error) {
		s, _ := st.Get(0).(value.Int)
		x, _ := st.Get(1).(value.Int)
		rec(int64(s), int64(x))
		return st.Get(1), nil
	}, Args: 2, IsPure: false}.SetDescription("stage", "x", "records and returns x"))
	g.AddStaticFunction("delay", funcGen.Function[value.Value]{Func: func(st funcGen.Stack[value.Value], cs []value.Value) (value.Value, error) {
		x, _ := st.Get(0).(value.Int)
		us, _ := st.Get(1).(value.Int)
		j := (int64(x)*7919%3 + 1) * int64(us) / 2
		time.Sleep(time.Duration(j) * time.Microsecond)
		return st.Get(0), nil
	}, Args: 2, IsPure: false}.SetDescription("x", "us", "sleeps and returns x"))
	g.AddStaticFunction("failAt", funcGen.Function[value.Value]{Func: func(st funcGen.Stack[value.Value], cs []value.Value) (value.Value, error) {
		if x, ok := st.Get(0).(value.Int); ok {
			if k, ok := st.Get(1).(value.Int); ok && x == k {
				return nil, fmt.Errorf("element %d fails", x)
			}
		}
		return st.Get(0), nil
	}, Args: 2, IsPure: false}.SetDescription("x", "k", "fails for x=k"))
	g.AddStaticFunction("panicAt", funcGen.Function[value.Value]{Func: func(st funcGen.Stack[value.Value], cs []value.Value) (value.Value, error) {
		if x, ok := st.Get(0).(value.Int); ok {
			if k, ok := st.Get(1).(value.Int); ok && x == k {
				panic(fmt.Sprintf("element %d panics", x))
			}
		}
		return st.Get(0), nil
	}, Args: 2, IsPure: false}.SetDescription("x", "k", "panics for x=k"))
}

func pipeRefInterp(rec func(stage, x int64)) *ref.Interp {
	in := ref.NewInterp()
	in.NoShadow = true
	in.Host["tick"] = func(in *ref.Interp, a []ref.Value) (ref.Value, *ref.Err) {
		if rec != nil {
			s, _ := a[0].(int64)
			x, _ := a[1].(int64)
			rec(s, x)
		}
		return a[1], nil
	}
	in.Host["delay"] = func(in *ref.Interp, a []ref.Value) (ref.Value, *ref.Err) { return a[0], nil }
	in.Host["panicAt"] = func(in *ref.Interp, a []ref.Value) (ref.Value, *ref.Err) {
		if x, ok := a[0].(int64); ok {
			if k, ok := a[1].(int64); ok && x == k {
				return nil, &ref.Err{Msg: "element panics"}
			}
		}
		return a[0], nil
	}
	in.Host["failAt"] = func(in *ref.Interp, a []ref.Value) (ref.Value, *ref.Err) {
		if x, ok := a[0].(int64); ok {
			if k, ok := a[1].(int64); ok && x == k {
				return nil, &ref.Err{Msg: "element fails"}
			}
		}
		return a[0], nil
	}
	return in
}

func (c06) Run(c *wk.Case) {
	if c06gen == nil {
		c06gen = value.New()
		pipeHost(c06gen, func(stage, x int64) {
			g := gid()
			c06tick.mu.Lock()
			c06tick.gids[g] = true
			c06tick.events++
			if len(c06tick.order) < 4000 {
				c06tick.order = append(c06tick.order, stage<<32|x&0xffffffff)
			}
			c06tick.mu.Unlock()
		})
	}
	r := c.Rng
	o := gen.PipeOpts{MaxN: 2000, Cost: r.IntN(3), DelayUs: 250, FailAt: -1, MaxStages: 6}
	if o.Cost != 0 {
		o.MaxN = 120
		if c.Tier == "thorough" && r.IntN(4) == 0 {
			o.MaxN = 400
		}
	}
	if r.IntN(5) == 0 {
		o.FailAt = r.IntN(o.MaxN + 1)
		o.FailPanic = r.IntN(3) == 0
	}
	p := gen.GenPipe(r, o, true)
	src, ok := safeSource(p.Node, ref.PrintOpts{})
	if !ok {
		c.Inconclusive("generator-bug", "let in a forbidden position")
		return
	}
	c.Logf("pipeline (n=%d, cost=%d, failAt=%d): %s", p.N, o.Cost, o.FailAt, src)
	// argument list
	items := make([]ref.Value, p.N)
	for i := range items {
		items[i] = int64(i)
	}
	lazyArg := r.IntN(2) == 0
	in := pipeRefInterp(nil)
	wv, we, _ := refEval(in, p.Node, []string{"src"}, []ref.Value{ref.NewList(items...)})
	if we != nil && (we.Unspec || we.Budget) {
		c.Count("reference_unspecified", 1)
		return
	}
	f, err, pan := generate(c06gen, src, []string{"src"})
	if pan != nil || err != nil {
		c.Violation("pipeline-rejected", fmt.Sprintf("Generate(%q): %v %v", src, err, pan), map[string]any{"src": src})
		return
	}
	h := fnv.New64a()
	for rep := 0; rep < 2; rep++ {
		c06tick.reset()
		arg := bridge.ToReal(ref.NewList(items...), bridge.Variant{LazyLists: lazyArg})
		got := evalReal(f, []value.Value{arg})
		v, why := bridge.CompareOutcome(wv, we, false, got)
		// (the failure shows as an error, or - where the terminal is wrapped in "try ... catch -1" - as the value -1)
		failed := got.Err != nil || (strings.Contains(src, "catch -1") && got.Val != nil && bridge.Describe(got.Val) == "-1")
		if v == bridge.Disagree && o.FailAt >= 0 && we == nil && failed && c.Config != "cpu1" {
			// The failing element lies behind the point where a stage of the pipeline (top, merge end...) stops
			// reading: sequentially it is never evaluated. A stage in front of it that has switched to workers
			// reads ahead, so the failure may surface - the property leaves that open.
			c.Count("failure_behind_an_early_stop_surfaced_through_read_ahead", 1)
			h.Write([]byte("OPEN"))
			continue
		}
		if v == bridge.Disagree {
			c.Violation("pipeline-differs-from-sequential-model", fmt.Sprintf("[%s] %q (n=%d): %s", c.Config, src, p.N, why), map[string]any{"src": src, "n": p.N, "why": why, "config": c.Config, "stages": p.Kinds, "terminal": p.Terminal})
			return
		}
		if got.Err != nil {
			h.Write([]byte("ERR"))
		} else {
			h.Write([]byte(canonDescribe(got.Val)))
		}
		c06tick.mu.Lock()
		ng := len(c06tick.gids)
		oh := fnv.New64a()
		for _, e := range c06tick.order {
			fmt.Fprintf(oh, "%d,", e)
		}
		ev := c06tick.events
		c06tick.mu.Unlock()
		c.Count("tick_events", int64(ev))
		if ng >= 2 {
			c.Count("pipelines_on_multiple_goroutines", 1)
			c.Max("goroutines_in_one_pipeline", int64(ng))
			c.Distinct("completion_orders", oh.Sum64())
		}
	}
	if !(o.FailAt >= 0 && we == nil) {
		// (a failure the sequential evaluation never reaches may surface on some configurations only)
		c.Result(h.Sum64())
	}
	near := false
	for i, k := range p.Kinds {
		if (k == "map" || k == "accept") && (i > 0 || i+1 < len(p.Kinds)) {
			near = true
		}
	}
	if p.N >= 12 && near {
		c.NonTrivial(wk.Hash64(src))
		if c.Index%60 == 0 {
			c.Sample(map[string]any{"pipeline": src, "n": p.N, "cost_profile": o.Cost, "fail_at": o.FailAt, "config": c.Config})
		}
	}
}

// canonDescribe: describe with maps sorted (already) - unordered lists only occur behind order-insensitive terminals.
func canonDescribe(v value.Value) string { return bridge.Describe(v) }

var _ = sort.Strings

func pipePanic() funcGen.Function[value.Value] {
	return funcGen.Function[value.Value]{Func: func(st funcGen.Stack[value.Value], cs []value.Value) (value.Value, error) {
		if x, ok := st.Get(0).(value.Int); ok {
			if k, ok := st.Get(1).(value.Int); ok && x == k {
				panic("host function panics")
			}
		}
		return st.Get(0), nil
	}, Args: 2, IsPure: false}.SetDescription("x", "k", "panics for x=k")
}

func stackOf() funcGen.Stack[value.Value] { return funcGen.NewEmptyStack[value.Value]() }
