package props

import (
	"fmt"
	"io"
	"log"
	"math/rand/v2"
	"strings"

	"github.com/hneemann/parser2"
	"github.com/hneemann/parser2/funcGen"
	"github.com/hneemann/parser2/value"

	"verif/bridge"
	"verif/gen"
	"verif/ref"
)

func init() {
	// the library logs recovered panics with a stack trace; keep worker output small
	log.SetOutput(io.Discard)
}

// vlang is a pair of real generators (default optimizer / SetOptimizer(nil)).
type vlang struct {
	opt, noopt *value.FunctionGenerator
}

func newVlang(setup func(g *value.FunctionGenerator)) *vlang {
	mk := func(opt bool) *value.FunctionGenerator {
		g := value.New()
		if setup != nil {
			setup(g)
		}
		if !opt {
			g.SetOptimizer(nil)
		}
		return g
	}
	return &vlang{opt: mk(true), noopt: mk(false)}
}

var plainVlang *vlang

func getPlainVlang() *vlang {
	if plainVlang == nil {
		plainVlang = newVlang(nil)
	}
	return plainVlang
}

// generate calls Generate inside a recover.
func generate(g *value.FunctionGenerator, src string, args []string) (f funcGen.Func[value.Value], err error, pan any) {
	defer func() {
		if r := recover(); r != nil {
			pan = r
		}
	}()
	f, _, err = g.Generate(src, args...)
	return
}

// evalReal evaluates and forces inside a recover.
func evalReal(f funcGen.Func[value.Value], args []value.Value) bridge.Outcome {
	var v value.Value
	var err error
	var pan any
	func() {
		defer func() {
			if r := recover(); r != nil {
				pan = r
			}
		}()
		v, err = f.Eval(args...)
	}()
	if pan != nil {
		// a panic that escapes from the evaluation call itself
		return bridge.Outcome{Err: fmt.Errorf("panic: %v", pan), Panic: pan}
	}
	return bridge.Force(v, err)
}

// isConstAST reports whether the optimised AST of src is a single constant.
func isConstAST(g *value.FunctionGenerator, src string, args []string) bool {
	defer func() { recover() }()
	ast, err := g.CreateAst(src, g.Identifier().AddArgs(args, nil))
	if err != nil {
		return false
	}
	_, ok := ast.(*parser2.Const[value.Value])
	return ok
}

// refEval runs the reference interpreter and forces the result.
func refEval(in *ref.Interp, prog *ref.Node, names []string, args []ref.Value) (ref.Value, *ref.Err, bool) {
	v, e := in.Run(prog, names, args)
	if e == nil {
		e = in.DeepForce(v)
	}
	return v, e, in.ReadAheadErr
}

func genArgs(r *rand.Rand, p *gen.Program) []ref.Value {
	out := make([]ref.Value, len(p.ArgTypes))
	for i, t := range p.ArgTypes {
		out[i] = gen.GenValue(r, t, 0)
	}
	return out
}

func realArgs(r *rand.Rand, args []ref.Value) ([]value.Value, bridge.Variant) {
	va := bridge.Variant{LazyLists: r.IntN(2) == 0, MapKind: []int{0, 2, 3, 4}[r.IntN(4)]}
	return realArgsVariant(args, va), va
}

func realArgsVariant(args []ref.Value, va bridge.Variant) []value.Value {
	out := make([]value.Value, len(args))
	for i, a := range args {
		out[i] = bridge.ToReal(a, va)
	}
	return out
}

// hashMapArgs returns a copy of the reference arguments in which every map is
// marked as unordered (the real counterpart is a hash map, bridge MapKind 1).
func hashMapArgs(args []ref.Value) []ref.Value {
	out := make([]ref.Value, len(args))
	for i, a := range args {
		out[i] = markUnordered(a)
	}
	return out
}

func markUnordered(v ref.Value) ref.Value {
	switch t := v.(type) {
	case *ref.List:
		items, _ := ref.NewInterp().Force(t)
		n := make([]ref.Value, len(items))
		for i, it := range items {
			n[i] = markUnordered(it)
		}
		return ref.NewList(n...)
	case *ref.Map:
		m := &ref.Map{Keys: t.Keys, Unordered: true}
		for _, x := range t.Vals {
			m.Vals = append(m.Vals, markUnordered(x))
		}
		return m
	}
	return v
}

func describeArgs(args []ref.Value) []string {
	out := make([]string, len(args))
	for i, a := range args {
		out[i] = ref.Describe(a)
	}
	return out
}

// safeSource renders a program; a generator bug (let in a forbidden position) is reported as ok=false.
func safeSource(n *ref.Node, o ref.PrintOpts) (src string, ok bool) {
	defer func() {
		if r := recover(); r != nil {
			ok = false
		}
	}()
	return n.SourceOpts(o), true
}

func toRealPlain(v ref.Value) value.Value { return bridge.ToReal(v, bridge.Variant{}) }

// evalRealNoForce evaluates without forcing a lazy result.
func evalRealNoForce(f funcGen.Func[value.Value], args []value.Value) (o bridge.Outcome) {
	defer func() {
		if r := recover(); r != nil {
			o = bridge.Outcome{Err: fmt.Errorf("panic: %v", r), Panic: r}
		}
	}()
	v, err := f.Eval(args...)
	return bridge.Outcome{Val: v, Err: err}
}

// regroupTol: the optimizer may regroup the constant operands of '*' (the only operator the value language
// declares commutative), which changes float results in the last places; C02 states this tolerance, and every
// comparison of an optimised program with the reference model grants it (relative 1e-12) when the program
// multiplies at all.
func regroupTol(optimizer bool, src string) bool { return optimizer && strings.Contains(src, "*") }
