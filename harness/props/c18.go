package props

// C18 — XML and HTML export are well-formed and data can never inject markup.
// Monitor M-rt through encoding/xml (strict): the token stream of the output
// is walked against the source value (XML: full structure; HTML: element and
// attribute whitelist, every string/key/style/link/file name of the value must
// decode back exactly from character data or an attribute value).

import (
	"bytes"
	"encoding/xml"
	"fmt"
	"html/template"
	"io"
	"sort"
	"strings"

	"github.com/hneemann/iterator"
	"github.com/hneemann/parser2/funcGen"
	"github.com/hneemann/parser2/listMap"
	"github.com/hneemann/parser2/value"
	"github.com/hneemann/parser2/value/export"

	"verif/bridge"
	"verif/gen"
	"verif/ref"
	"verif/wk"
)

type c18 struct{}

func init() { register("C18", c18{}) }

func (c18) Plan(tier string) wk.Plan {
	n := int64(40000)
	if tier == "thorough" {
		n = 3_000_000
	}
	return wk.Plan{
		Level: "exploration", Cases: n, Chunk: 1000, Configs: single("seq", 16), CaseBudget: 20,
		Rule:        "even cases: a generated list/map tree (legal XML characters only; strings and keys with < > & ' \" ]]> comment/CDATA/entity look-alikes, blanks, =, non-name characters, leading/trailing blanks, CR/LF/TAB; every list/map representation) is exported with export.XML(); the strict encoding/xml token stream is walked against the value: element names only list/entry/map, a map key either as attribute (value = string form) or as entry with a key attribute, each key exactly once, entries in order, every scalar exactly its string form as character data (whitespace ignored only between elements). Odd cases: the tree, with Format (style string / style map / style closure incl. failing ones), Link and File wrappers, values that fail while being rendered (lazy lists whose iteration fails, nested in items, rows, map values: ToHtml must return an error) and list sizes around maxListSize, goes through export.ToHtml (inline-style and class mode): no panic (errors are returned), strict well-formedness, element names within {table,tr,td,a,span}, attribute names within {style,class,href,target,colspan,download}, every string leaf/key/style string/link target/file name of the rendered part decodes back exactly from a text node or attribute value. Non-trivial = tree has a string or key with a markup character or leading/trailing white space; distinct by output.",
		Floor:       500,
		Assumptions: []string{"encoding/xml (Strict) is the standard parser; it normalises CR/CRLF in character data, so an unescaped CR is a violation", "for ToHtml only the rendered prefix of over-long lists is checked; float leaves are not compared textually (unicode formatting)"},
	}
}

type xnode struct {
	name  string
	attrs map[string]string
	order []string
	kids  []*xnode
	text  string // concatenated character data directly inside
}

func parseXML(data []byte) (*xnode, error) {
	dec := xml.NewDecoder(bytes.NewReader(data))
	dec.Strict = true
	root := &xnode{name: "#root", attrs: map[string]string{}}
	stack := []*xnode{root}
	for {
		tok, err := dec.Token()
		if err == io.EOF {
			break
		}
		if err != nil {
			return nil, err
		}
		switch t := tok.(type) {
		case xml.StartElement:
			n := &xnode{name: t.Name.Local, attrs: map[string]string{}}
			if t.Name.Space != "" {
				n.name = t.Name.Space + ":" + t.Name.Local
			}
			for _, a := range t.Attr {
				an := a.Name.Local
				if a.Name.Space != "" {
					an = a.Name.Space + ":" + an
				}
				if _, dup := n.attrs[an]; dup {
					return nil, fmt.Errorf("duplicate attribute %q", an)
				}
				n.attrs[an] = a.Value
				n.order = append(n.order, an)
			}
			top := stack[len(stack)-1]
			top.kids = append(top.kids, n)
			stack = append(stack, n)
		case xml.EndElement:
			stack = stack[:len(stack)-1]
		case xml.CharData:
			stack[len(stack)-1].text += string(t)
		case xml.Comment:
			return nil, fmt.Errorf("comment in output")
		case xml.Directive:
			return nil, fmt.Errorf("directive in output")
		}
	}
	if len(stack) != 1 {
		return nil, fmt.Errorf("unbalanced")
	}
	return root, nil
}

func strForm(v ref.Value) string {
	s, _ := ref.NewInterp().ToString(v)
	return s
}

// checkXML compares one exported node with the value.
func checkXML(n *xnode, v ref.Value, path string) error {
	switch t := v.(type) {
	case *ref.List:
		if n.name != "list" || len(n.attrs) != 0 {
			return fmt.Errorf("%s: expected <list> without attributes, found <%s %v>", path, n.name, n.order)
		}
		items, _ := ref.NewInterp().Force(t)
		if len(n.kids) != len(items) {
			return fmt.Errorf("%s: list of %d items exported with %d children", path, len(items), len(n.kids))
		}
		if strings.TrimSpace(n.text) != "" {
			return fmt.Errorf("%s: text %q directly inside <list>", path, n.text)
		}
		for i, k := range n.kids {
			if k.name != "entry" || len(k.attrs) != 0 {
				return fmt.Errorf("%s[%d]: expected <entry>, found <%s %v>", path, i, k.name, k.order)
			}
			if err := checkXMLContent(k, items[i], fmt.Sprintf("%s[%d]", path, i)); err != nil {
				return err
			}
		}
		return nil
	case *ref.Map:
		if n.name != "map" {
			return fmt.Errorf("%s: expected <map>, found <%s>", path, n.name)
		}
		if strings.TrimSpace(n.text) != "" {
			return fmt.Errorf("%s: text %q directly inside <map>", path, n.text)
		}
		seen := map[string]bool{}
		for an, av := range n.attrs {
			wv, ok := t.Get(an)
			if !ok {
				return fmt.Errorf("%s: attribute %q is not a key of the map (keys %q)", path, an, t.Keys)
			}
			switch wv.(type) {
			case *ref.List, *ref.Map:
				return fmt.Errorf("%s: container value of key %q written as attribute", path, an)
			}
			if av != strForm(wv) {
				return fmt.Errorf("%s: attribute %q decodes as %q, value is %q", path, an, av, strForm(wv))
			}
			seen[an] = true
		}
		lastKey := ""
		for i, k := range n.kids {
			if k.name != "entry" {
				return fmt.Errorf("%s: child <%s> of <map>", path, k.name)
			}
			key, ok := k.attrs["key"]
			if !ok || len(k.attrs) != 1 {
				return fmt.Errorf("%s: map entry %d has attributes %v", path, i, k.order)
			}
			wv, has := t.Get(key)
			if !has {
				return fmt.Errorf("%s: entry key %q is not a key of the map (keys %q)", path, key, t.Keys)
			}
			if seen[key] {
				return fmt.Errorf("%s: key %q exported twice", path, key)
			}
			seen[key] = true
			if i > 0 && key < lastKey {
				// entries are documented to be written in sorted key order by the generic traversal; not claimed by the property
				_ = lastKey
			}
			lastKey = key
			if err := checkXMLContent(k, wv, path+"."+key); err != nil {
				return err
			}
		}
		for _, k := range t.Keys {
			if !seen[k] {
				return fmt.Errorf("%s: key %q is missing in the export", path, k)
			}
		}
		return nil
	}
	return fmt.Errorf("%s: scalar at container position", path)
}

// checkXMLContent: the content of an <entry> is the value.
func checkXMLContent(k *xnode, v ref.Value, path string) error {
	switch v.(type) {
	case *ref.List, *ref.Map:
		if len(k.kids) != 1 {
			return fmt.Errorf("%s: container exported with %d child elements", path, len(k.kids))
		}
		if strings.TrimSpace(k.text) != "" {
			return fmt.Errorf("%s: text %q next to a container", path, k.text)
		}
		return checkXML(k.kids[0], v, path)
	}
	if len(k.kids) != 0 {
		return fmt.Errorf("%s: scalar %q exported with child element <%s>", path, strForm(v), k.kids[0].name)
	}
	if k.text != strForm(v) {
		return fmt.Errorf("%s: text decodes as %q, value is %q", path, k.text, strForm(v))
	}
	return nil
}

func markupish(s string) bool {
	return strings.ContainsAny(s, "<>&'\"\r\n\t=") || strings.TrimSpace(s) != s || strings.Contains(s, "]]>")
}

func (c18) Run(c *wk.Case) {
	if c.Index%2 == 0 {
		c18XML(c)
	} else {
		c18HTML(c)
	}
}

func c18XML(c *wk.Case) {
	tree := gen.RandTree(c.Rng, gen.TreeOpts{XMLSafe: true}, 0)
	va := bridge.Variant{LazyLists: c.Rng.IntN(2) == 0, MapKind: c.Rng.IntN(5)}
	real := bridge.ToReal(tree, va)
	var out []byte
	var err error
	var pan any
	func() {
		defer func() {
			if r := recover(); r != nil {
				pan = r
			}
		}()
		ex := export.XML()
		err = export.Export(funcGen.NewEmptyStack[value.Value](), real, ex)
		out = ex.Result()
	}()
	desc := truncate(ref.Describe(tree), 600)
	if pan != nil || err != nil {
		c.Violation("xml-export-fails", fmt.Sprintf("XML export of %s: err=%v panic=%v", desc, err, pan), map[string]any{"value": desc})
		return
	}
	root, perr := parseXML(out)
	if perr != nil {
		c.Violation("xml-not-well-formed", fmt.Sprintf("XML export of %s is rejected by encoding/xml: %v; document %q", desc, perr, truncate(string(out), 500)), map[string]any{"value": desc, "xml": string(out), "error": perr.Error()})
		return
	}
	if len(root.kids) != 1 {
		c.Violation("xml-structure", fmt.Sprintf("XML export of %s has %d root elements", desc, len(root.kids)), map[string]any{"value": desc, "xml": string(out)})
		return
	}
	if e := checkXML(root.kids[0], tree, "$"); e != nil {
		c.Violation("xml-structure", fmt.Sprintf("XML export of %s: %v; document %q", desc, e, truncate(string(out), 500)), map[string]any{"value": desc, "xml": string(out), "error": e.Error()})
		return
	}
	if treeHas(tree, markupish) {
		c.NonTrivial(wk.Hash64(string(out)))
		if c.Index%1000 == 0 {
			c.Sample(map[string]any{"kind": "xml", "value": truncate(desc, 300), "xml": truncate(string(out), 400)})
		}
	}
}

// ---- HTML ----

type htmlExpect struct {
	texts []string    // strings that must appear as exact text of a leaf element (or as href for link-like strings)
	plain []string    // map keys: must appear as text, whatever they look like (a key is never a link)
	attrs [][2]string // (attribute name, exact value) that must appear
	fails bool        // a failing style closure is inside: ToHtml may return an error (if the closure is applied at that position), never panic
	alts  [][]string  // at least one string of each group must appear as text (style closures are only applied in some positions)
}

func c18HTMLValue(c *wk.Case, d int, maxList int, exp *htmlExpect, inline bool) value.Value {
	r := c.Rng
	o := gen.TreeOpts{XMLSafe: true}
	str := func() string {
		s := gen.RandString(r, o)
		if r.IntN(12) == 0 {
			s = []string{"http://a/b?x=1&y=\"2\"", "https://h/<x>", "host:/p'q", " http://a", "http:/x"}[r.IntN(5)]
		}
		return s
	}
	leaf := func() value.Value {
		switch r.IntN(6) {
		case 0:
			n := int64(r.IntN(2000) - 1000)
			exp.texts = append(exp.texts, fmt.Sprint(n))
			return value.Int(n)
		case 1:
			b := r.IntN(2) == 0
			exp.texts = append(exp.texts, fmt.Sprint(b))
			return value.Bool(b)
		default:
			s := str()
			exp.texts = append(exp.texts, s)
			return value.String(s)
		}
	}
	if d >= 3 {
		return leaf()
	}
	switch k := r.IntN(12); {
	case k < 3:
		return leaf()
	case k < 6:
		n := r.IntN(4)
		if r.IntN(5) == 0 {
			n = maxList - 1 + r.IntN(3)
		}
		items := make([]value.Value, 0, n)
		for i := 0; i < n; i++ {
			if i < maxList {
				items = append(items, c18HTMLValue(c, d+1, maxList, exp, inline))
			} else {
				// beyond the cut-off: rendered as "more...", content not expected in the output
				var ignore htmlExpect
				items = append(items, c18HTMLValue(c, 3, maxList, &ignore, inline))
			}
		}
		if r.IntN(2) == 0 {
			return value.NewList(items...)
		}
		return lazyRealList(items)
	case k < 8:
		n := r.IntN(4)
		lm := listMap.New[value.Value](n)
		seen := map[string]bool{}
		for i := 0; i < n; i++ {
			key := str()
			if seen[key] {
				continue
			}
			seen[key] = true
			exp.plain = append(exp.plain, key+":")
			lm = lm.Append(key, c18HTMLValue(c, d+1, maxList, exp, inline))
		}
		return value.NewMap(lm)
	case k == 8:
		// style string on a string leaf
		style := []string{"color:red", "a:\"b\"", "x:'y'", "w:1<2", "b&c", "font: \"A B\", serif", ""}[r.IntN(7)]
		s := "t" + str()
		if strings.HasPrefix(s, "thttp") {
			s = "txt"
		}
		exp.texts = append(exp.texts, s)
		if inline && style != "" {
			exp.attrs = append(exp.attrs, [2]string{"style", style})
		}
		return export.Format{Value: value.String(s), Format: value.String(style)}
	case k == 9:
		link := str()
		exp.attrs = append(exp.attrs, [2]string{"href", link})
		return export.Link{Link: link, Value: c18HTMLValue(c, 3, maxList, exp, inline)}
	case k == 10:
		name := str()
		exp.attrs = append(exp.attrs, [2]string{"download", name})
		data := []byte(str())
		exp.texts = append(exp.texts, fmt.Sprintf("File: %s (%d Bytes)", name, len(data)))
		return export.File{Name: name, MimeType: []string{"", "text/plain"}[r.IntN(2)], Data: data}
	default:
		// style closure, sometimes failing
		if r.IntN(3) == 0 {
			exp.fails = true
			return export.Format{Value: value.Int(1), Format: value.Closure(funcGen.Function[value.Value]{Func: func(st funcGen.Stack[value.Value], cs []value.Value) (value.Value, error) {
				return nil, fmt.Errorf("style closure fails")
			}, Args: 1})}
		}
		s := "c" + str()
		if strings.HasPrefix(s, "chttp") {
			s = "cl"
		}
		exp.alts = append(exp.alts, []string{s, "1"})
		return export.Format{Value: value.Int(1), Format: value.Closure(funcGen.Function[value.Value]{Func: func(st funcGen.Stack[value.Value], cs []value.Value) (value.Value, error) {
			return value.String(s), nil
		}, Args: 1})}
	}
}

func collect(n *xnode, leaves *[]string, attrs *[][2]string, names map[string]bool, attrNames map[string]bool) {
	names[n.name] = true
	for k, v := range n.attrs {
		attrNames[k] = true
		*attrs = append(*attrs, [2]string{k, v})
	}
	if len(n.kids) == 0 {
		*leaves = append(*leaves, n.text)
	} else if strings.TrimSpace(n.text) != "" {
		*leaves = append(*leaves, "#mixed:"+n.text)
	}
	for _, k := range n.kids {
		collect(k, leaves, attrs, names, attrNames)
	}
}

// c18HTMLFailing: a value that fails while it is rendered (a lazy list whose iteration fails, nested at a
// position that is rendered) must make ToHtml return an error - not a panic, not a truncated document.
func c18HTMLFailing(c *wk.Case) {
	r := c.Rng
	maxList := 3 + r.IntN(4)
	inline := r.IntN(2) == 0
	failing := func(at int) value.Value {
		return value.NewListFromIterable(func(st funcGen.Stack[value.Value]) iterator.Producer[value.Value] {
			return func(yield iterator.Consumer[value.Value]) {
				for i := 0; i < at; i++ {
					if !yield(value.Int(i), nil) {
						return
					}
				}
				yield(nil, fmt.Errorf("element %d cannot be computed", at))
			}
		})
	}
	simple := func() value.Value {
		switch r.IntN(3) {
		case 0:
			return value.Int(r.IntN(100))
		case 1:
			return value.String(gen.RandString(r, gen.TreeOpts{XMLSafe: true}))
		}
		return value.NewList(value.Int(1), value.String("x"))
	}
	bad := failing(r.IntN(3))
	mustFail := true
	kind := r.IntN(6)
	switch kind {
	case 1:
		bad = value.NewList(simple(), bad) // a cell of a row
	case 2:
		bad = value.NewMap(listMap.New[value.Value](2).Append("a", simple()).Append("b", bad))
	case 3:
		bad = value.NewList(value.NewList(simple(), bad), value.NewList(simple(), simple()))
	case 4:
		// a styled list whose style closure fails: reported if the closure is applied at that position
		mustFail = false
		bad = export.Format{Value: value.NewList(simple(), simple()), Format: value.Closure(funcGen.Function[value.Value]{Func: func(st funcGen.Stack[value.Value], cs []value.Value) (value.Value, error) {
			return nil, fmt.Errorf("style closure fails")
		}, Args: 1})}
	}
	n := 1 + r.IntN(maxList)
	at := r.IntN(n)
	items := make([]value.Value, n)
	for i := range items {
		items[i] = simple()
	}
	items[at] = bad
	var v value.Value = value.NewList(items...)
	if kind == 5 {
		v = failing(r.IntN(3)) // the top-level list itself
	}
	var res template.HTML
	var err error
	var pan any
	func() {
		defer func() {
			if r := recover(); r != nil {
				pan = r
			}
		}()
		res, _, err = export.ToHtml(v, maxList, nil, inline)
	}()
	c.Count("html_failing_values", 1)
	what := fmt.Sprintf("kind %d, failing value at item %d of %d, maxListSize %d", kind, at, n, maxList)
	if pan != nil {
		c.Violation("html-panics", fmt.Sprintf("ToHtml panics on a failing value (%s): %v", what, pan), map[string]any{"what": what})
		return
	}
	if err == nil && mustFail {
		c.Violation("html-failure-not-reported", fmt.Sprintf("ToHtml returns no error although a rendered value fails (%s); output %q", what, truncate(string(res), 400)), map[string]any{"what": what, "html": string(res)})
		return
	}
	if err == nil {
		if _, perr := parseXML([]byte("<root>" + string(res) + "</root>")); perr != nil {
			c.Violation("html-not-well-formed", fmt.Sprintf("ToHtml output is rejected by encoding/xml: %v; output %q", perr, truncate(string(res), 600)), map[string]any{"html": string(res), "error": perr.Error()})
			return
		}
	}
	c.NonTrivial(wk.Hash64("htmlfail", what))
}

func c18HTML(c *wk.Case) {
	if c.Rng.IntN(10) == 0 {
		c18HTMLFailing(c)
		return
	}
	maxList := 1 + c.Rng.IntN(6)
	inline := c.Rng.IntN(2) == 0
	exp := &htmlExpect{}
	var v value.Value
	// top level: list or map
	for {
		e := &htmlExpect{}
		v = c18HTMLValue(c, 0, maxList, e, inline)
		if _, ok := v.(*value.List); ok {
			exp = e
			break
		}
		if _, ok := v.(value.Map); ok {
			exp = e
			break
		}
	}
	var res template.HTML
	var err error
	var pan any
	func() {
		defer func() {
			if r := recover(); r != nil {
				pan = r
			}
		}()
		res, _, err = export.ToHtml(v, maxList, nil, inline)
	}()
	if pan != nil {
		c.Violation("html-panics", fmt.Sprintf("ToHtml panics: %v", pan), map[string]any{"expect": exp.texts})
		return
	}
	if exp.fails {
		// whether the closure is applied depends on the position of the value; a failure must come back as an error
		if err != nil {
			c.Count("failing_style_closures_reported_as_error", 1)
			return
		}
		c.Count("failing_style_closures_not_applied", 1)
	}
	if err != nil {
		c.Violation("html-fails", fmt.Sprintf("ToHtml fails: %v", err), map[string]any{"expect": exp.texts})
		return
	}
	root, perr := parseXML([]byte("<root>" + string(res) + "</root>"))
	if perr != nil {
		c.Violation("html-not-well-formed", fmt.Sprintf("ToHtml output is rejected by encoding/xml: %v; output %q", perr, truncate(string(res), 600)), map[string]any{"html": string(res), "error": perr.Error()})
		return
	}
	var leaves []string
	var attrs [][2]string
	names, attrNames := map[string]bool{}, map[string]bool{}
	for _, k := range root.kids[0:] {
		collect(k, &leaves, &attrs, names, attrNames)
	}
	if len(root.kids) == 1 {
		// root wrapper
		leaves, attrs = nil, nil
		names, attrNames = map[string]bool{}, map[string]bool{}
		for _, k := range root.kids[0].kids {
			collect(k, &leaves, &attrs, names, attrNames)
		}
	}
	for n := range names {
		switch n {
		case "table", "tr", "td", "a", "span":
		default:
			c.Violation("html-unexpected-element", fmt.Sprintf("element <%s> in ToHtml output %q", n, truncate(string(res), 600)), map[string]any{"html": string(res)})
			return
		}
	}
	for n := range attrNames {
		switch n {
		case "style", "class", "href", "target", "colspan", "download":
		default:
			c.Violation("html-unexpected-attribute", fmt.Sprintf("attribute %q in ToHtml output %q", n, truncate(string(res), 600)), map[string]any{"html": string(res)})
			return
		}
	}
	leafSet := map[string]int{}
	for _, l := range leaves {
		leafSet[l]++
	}
	hrefs := map[string]bool{}
	attrSet := map[[2]string]bool{}
	for _, a := range attrs {
		attrSet[a] = true
		if a[0] == "href" {
			hrefs[a[1]] = true
		}
	}
	for _, t := range exp.plain {
		if leafSet[t] == 0 {
			c.Violation("html-key-not-plain-text", fmt.Sprintf("the map key %q does not decode back from any text node; output %q", t, truncate(string(res), 700)), map[string]any{"html": string(res), "string": t})
			return
		}
	}
	for _, t := range exp.texts {
		if leafSet[t] > 0 {
			continue
		}
		// strings that look like links are rendered as links
		if (strings.HasPrefix(t, "http://") || strings.HasPrefix(t, "https://")) && hrefs[t] {
			continue
		}
		if strings.HasPrefix(t, "host:") && hrefs[t[5:]] {
			continue
		}
		c.Violation("html-text-not-preserved", fmt.Sprintf("the string %q of the value does not decode back from any text node; output %q", t, truncate(string(res), 700)), map[string]any{"html": string(res), "string": t})
		return
	}
	for _, grp := range exp.alts {
		ok := false
		for _, t := range grp {
			if leafSet[t] > 0 {
				ok = true
			}
		}
		if !ok {
			c.Violation("html-text-not-preserved", fmt.Sprintf("none of %q decodes back from a text node; output %q", grp, truncate(string(res), 700)), map[string]any{"html": string(res)})
			return
		}
	}
	for _, a := range exp.attrs {
		if !attrSet[a] {
			c.Violation("html-attribute-not-preserved", fmt.Sprintf("expected attribute %s=%q does not decode back; output %q", a[0], a[1], truncate(string(res), 700)), map[string]any{"html": string(res), "attr": a})
			return
		}
	}
	c.Count("html_strings_checked", int64(len(exp.texts)))
	nontriv := false
	for _, t := range exp.texts {
		if markupish(t) {
			nontriv = true
		}
	}
	if nontriv {
		c.NonTrivial(wk.Hash64(string(res)))
		if c.Index%1000 == 1 {
			c.Sample(map[string]any{"kind": "html", "expected_strings": exp.texts, "html": truncate(string(res), 500), "maxListSize": maxList, "inline": inline})
		}
	}
}

var _ = sort.Strings

func lazyRealList(items []value.Value) *value.List {
	return value.NewListFromIterable(func(st funcGen.Stack[value.Value]) iterator.Producer[value.Value] {
		return func(yield iterator.Consumer[value.Value]) {
			for _, it := range items {
				if !yield(it, nil) {
					return
				}
			}
		}
	})
}
