package props

// C07 — the built-in library matches its documented model.
// Monitor: M-ref (eager/lazy reference models of every built-in) over
// per-built-in generated calls (receivers: empty, singleton, duplicates,
// sorted/reversed, mixed int/float, nested, unicode), misuse variants and
// compositions. The list of built-ins is discovered at run time from
// GetDocumentation(); a documented built-in without a model or an explicit
// "unspecified" entry makes the run inconclusive.

import (
	"fmt"
	"math"
	"sort"

	"github.com/hneemann/parser2/value"

	"verif/bridge"
	"verif/gen"
	"verif/ref"
	"verif/wk"
)

type c07 struct{}

func init() { register("C07", c07{}) }

// built-ins that are deliberately not modelled (documented in DESIGN.md appendix A)
var c07Unmodelled = map[string]string{
	"list.createInterpolation": "floating-point algorithm", "list.linearReg": "floating-point algorithm",
	"list.binning": "C20", "list.binning2d": "C20", "list.collectBinning": "C20",
	"global.sprintf": "delegates to Go's formatter", "global.bisection": "floating-point algorithm", "global.createLowPass": "floating-point algorithm",
	"global.random": "excluded by C01", "global.randomConst": "excluded by C01",
}

func (c07) Plan(tier string) wk.Plan {
	n := int64(120000)
	if tier == "thorough" {
		n = 8_000_000
	}
	return wk.Plan{
		Level: "exploration", Cases: n, Chunk: 500, Configs: single("seq", 16), CaseBudget: 8,
		Rule:        "case i exercises built-in number i mod N of the run-time documentation (N documented methods and functions): 60% a direct call with generated receiver (empty, singleton, duplicates, sorted, reversed, mixed int/float, nested, unicode strings), generated callbacks and numeric arguments incl. 0, negatives and values beyond the size; 20% a misuse derived from it (argument dropped/added/replaced by a wrong type, callback of wrong arity, wrong receiver); 20% a composition (the call embedded in a generated program of up to 4 built-ins); each on 3 argument tuples, optimizer on and off. Oracle: reference model; unordered/tie-aware comparison where the description promises no order. Non-trivial = the reference determines the outcome (not unspecified) and the call was executed; distinct by source. The evidence lists per built-in how often the model executed it successfully.",
		Floor:       2000,
		Assumptions: []string{"reference models are written from the method descriptions; open points are listed in DESIGN.md appendix A and counted as unspecified", "one CPU (sequential stages); parallel schedules are C06's subject"},
	}
}

var c07dials = gen.Dials{MaxDepth: 4, Budget: 30, VarLeaf: 0.5, Bind: 0.12, Fault: 0.004}

var c07entries [][2]string

func c07Entries() [][2]string {
	if c07entries != nil {
		return c07entries
	}
	g := getPlainVlang().opt
	for _, td := range g.GetDocumentation() {
		kind := td.Name
		for _, f := range td.Functions {
			c07entries = append(c07entries, [2]string{kind, f.Name})
		}
	}
	sort.Slice(c07entries, func(i, j int) bool {
		if c07entries[i][0] != c07entries[j][0] {
			return c07entries[i][0] < c07entries[j][0]
		}
		return c07entries[i][1] < c07entries[j][1]
	})
	return c07entries
}

func (c07) Run(c *wk.Case) {
	vl := getPlainVlang()
	entries := c07Entries()
	if len(entries) < 50 {
		c.Inconclusive("no-documentation", fmt.Sprintf("GetDocumentation lists only %d built-ins", len(entries)))
		return
	}
	e := entries[int(c.Index)%len(entries)]
	full := e[0] + "." + e[1]
	if why, ok := c07Unmodelled[full]; ok {
		c.Count("unmodelled_"+full, 1)
		_ = why
		return
	}
	if full == "list.movingWindow" && (c.Index/int64(len(entries)))%2 == 1 {
		c07MovingWindowUnsorted(c, vl)
		return
	}
	g := gen.NewPG(c.Rng, c07dials)
	nargs := c.Rng.IntN(3)
	p := &gen.Program{}
	for i := 0; i < nargs; i++ {
		n := fmt.Sprintf("arg%d", i)
		t := g.RandomType(1)
		p.ArgNames = append(p.ArgNames, n)
		p.ArgTypes = append(p.ArgTypes, t)
		g.Declare(n, t)
	}
	call := g.BuiltinCall(e[0], e[1], 1)
	if call == nil {
		c.Inconclusive("no-model:"+full, "documented built-in "+full+" has neither a generator template nor an unspecified entry")
		return
	}
	mode := "direct"
	prog := call
	switch k := (c.Index / int64(len(entries))) % 6; {
	case k == 5:
		// the result is looked at more than once (a lazy list is traversed again from its start each time)
		mode = "retraversal"
		r := ref.Id("r0")
		guard := func(e *ref.Node) *ref.Node { return ref.Try(e, ref.Str("failed")) }
		var uses []*ref.Node
		switch c.Rng.IntN(4) {
		case 3:
			// a map result is looked into by key as well as listed (both views must describe the same map)
			uses = []*ref.Node{guard(ref.Method(r, "size")), guard(ref.Method(ref.Method(r, "list"), "size"))}
			for _, k := range []string{"zz", "k0", "k1", "k2", "n1", "other", "", "a b"} {
				uses = append(uses, guard(ref.Method(r, "isAvail", ref.Str(k))), guard(ref.Method(r, "isAvail", ref.Str("k0"), ref.Str(k))), guard(ref.Method(r, "get", ref.Str(k))), guard(ref.Bin("~", ref.Str(k), r)),
					guard(ref.Method(ref.Method(r, "put", ref.Str(k), ref.Int(5)), "size")))
			}
		case 0:
			uses = []*ref.Node{guard(ref.Method(r, "string")), guard(ref.Method(r, "string"))}
		case 1:
			uses = []*ref.Node{guard(ref.Method(ref.Method(ref.ListN(ref.Int(1), ref.Int(2)), "cross", r, ref.Clo([]string{"ca", "cb"}, ref.Id("cb"))), "string")), guard(ref.Method(r, "string"))}
		default:
			uses = []*ref.Node{guard(ref.Method(ref.Method(r, "top", ref.Int(2)), "string")), guard(ref.Method(r, "size")), guard(ref.Method(r, "string"))}
		}
		prog = ref.Let("r0", call, ref.ListN(uses...))
	case k == 3:
		mode = "misuse"
		prog = g.Misuse(call)
	case k == 4:
		mode = "composition"
		// embed: the call as an element that a generated consumer uses
		v := g.Gen(g.RandomType(1), 1, true)
		prog = ref.ListN(call, v)
		if c.Rng.IntN(2) == 0 {
			prog = ref.Method(prog, "size")
		}
	}
	src, ok := safeSource(prog, ref.PrintOpts{})
	if !ok {
		c.Inconclusive("generator-bug", "let in a forbidden position")
		return
	}
	c.Logf("[%s %s] %s", full, mode, src)
	in := ref.NewInterp()
	nt := 3
	if nargs == 0 {
		nt = 1
	}
	determined := false
	for k := 0; k < nt; k++ {
		tu := genArgs(c.Rng, p)
		in.Builtins = map[string]int{}
		wv, we, rae := refEval(in, prog, p.ArgNames, tu)
		if we != nil && (we.Budget || we.Unspec) {
			c.Count("unspecified_outcomes", 1)
			continue
		}
		for name, n := range in.Builtins {
			if name == full {
				c.Count("executed_"+name, int64(n))
			}
		}
		for _, gname := range []string{"optimizer", "no-optimizer"} {
			gg := vl.opt
			if gname != "optimizer" {
				gg = vl.noopt
			}
			f, err, pan := generate(gg, src, p.ArgNames)
			if pan != nil {
				c.Violation("generate-panic", fmt.Sprintf("[%s] Generate panics on %q: %v", full, src, pan), map[string]any{"src": src})
				return
			}
			var got bridge.Outcome
			if err != nil {
				got = bridge.Outcome{Err: err}
			} else {
				ra, _ := realArgs(c.Rng, tu)
				got = evalReal(f, ra)
			}
			if c.Verbose {
				c.Logf("  args %v [%s]: reference %s err=%v | real %s err=%v", describeArgs(tu), gname, ref.Describe(wv), we, bridge.Describe(got.Val), got.Err)
			}
			got.FloatTol = regroupTol(gname == "optimizer", src)
			if v, why := bridge.CompareOutcome(wv, we, rae, got); v == bridge.Disagree {
				small, swhy := shrinkDisagreement(vl, prog, p.ArgNames, [][]ref.Value{tu}, ref.PrintOpts{})
				c.Violation("builtin:"+full, fmt.Sprintf("[%s %s, %s] %q with %v: %s || reduced: %q: %s", full, mode, gname, src, describeArgs(tu), why, small, swhy),
					map[string]any{"builtin": full, "mode": mode, "src": src, "args": describeArgs(tu), "why": why, "reduced": small, "reduced_why": swhy})
				return
			} else if v == bridge.Agree {
				determined = true
				if we != nil {
					c.Count("agreed_errors_"+mode, 1)
				} else {
					c.Count("agreed_values_"+mode, 1)
				}
			}
		}
	}
	if determined {
		c.NonTrivial(wk.Hash64(src))
		if c.Index%997 == 0 {
			c.Sample(map[string]any{"builtin": full, "mode": mode, "program": src})
		}
	}
}

// c07MovingWindowUnsorted: movingWindow over callback values in ANY order (reversed, zig-zag, random). The
// description does not determine the windows completely there (the reference model leaves such inputs open),
// but it does say what every reading shares: one window per item, each a contiguous run of the list that ends
// with that item, windows move forward only, and the items of a window are close to each other - so the oldest
// and the newest item of a window differ by at most 1 in the callback's value. Judged on the real result alone.
func c07MovingWindowUnsorted(c *wk.Case, vl *vlang) {
	n := c.Rng.IntN(9)
	k := []float64{1, 0.75, 0.3, 1.5, -1, -0.5}[c.Rng.IntN(6)]
	vals := make([]float64, n)
	items := make([]value.Value, n)
	shape := c.Rng.IntN(4)
	for i := range vals {
		var v float64
		switch shape {
		case 0: // descending
			v = float64(2*(n-i)) + float64(c.Rng.IntN(3))
		case 1: // zig-zag
			v = float64((i%2)*5) + float64(c.Rng.IntN(2))
		case 2: // random small (many close neighbours)
			v = float64(c.Rng.IntN(9)) / 2
		default: // random wide
			v = float64(c.Rng.IntN(41) - 20)
		}
		vals[i] = v
		if v == math.Trunc(v) && c.Rng.IntN(2) == 0 {
			items[i] = value.Int(int(v))
		} else {
			items[i] = value.Float(v)
		}
	}
	src := fmt.Sprintf("l.movingWindow(x->x*%v).map(w->[w.size(), w.first(), w.last()])", k)
	if k < 0 {
		src = fmt.Sprintf("l.movingWindow(x->x*(%v)).map(w->[w.size(), w.first(), w.last()])", k)
	}
	c.Logf("[list.movingWindow unsorted] %s with %v", src, vals)
	for _, gg := range []*value.FunctionGenerator{vl.opt, vl.noopt} {
		f, err, pan := generate(gg, src, []string{"l"})
		if err != nil || pan != nil {
			c.Violation("builtin:list.movingWindow", fmt.Sprintf("%q: Generate fails: %v %v", src, err, pan), map[string]any{"src": src})
			return
		}
		got := evalReal(f, []value.Value{value.NewList(items...)})
		bad := func(msg string) {
			c.Violation("builtin:list.movingWindow", fmt.Sprintf("[list.movingWindow unsorted] %q with l=%v: %s (result %s, err %v)", src, vals, msg, bridge.Describe(got.Val), got.Err),
				map[string]any{"builtin": "list.movingWindow", "mode": "unsorted", "src": src, "values": vals, "why": msg})
		}
		if got.Err != nil || got.Panic != nil {
			bad("fails on a list of numbers")
			return
		}
		ws, ok := listOf(got.Val)
		if !ok || len(ws) != n {
			bad(fmt.Sprintf("%d windows for %d items", len(ws), n))
			return
		}
		prevStart := 0
		for i, w := range ws {
			e, ok := listOf(w)
			if !ok || len(e) != 3 {
				bad("window summary malformed")
				return
			}
			sz, ok1 := e[0].ToFloat()
			fi, ok2 := e[1].ToFloat()
			la, ok3 := e[2].ToFloat()
			if !ok1 || !ok2 || !ok3 {
				bad("window summary malformed")
				return
			}
			size := int(sz)
			start := i - size + 1
			if size < 1 || start < 0 || la != vals[i] || fi != vals[start] {
				bad(fmt.Sprintf("window %d is not a run of the list ending with item %d", i, i))
				return
			}
			if start < prevStart {
				bad(fmt.Sprintf("window %d starts at %d, before the start %d of the window before", i, start, prevStart))
				return
			}
			prevStart = start
			if math.Abs(fi*k-la*k) > 1+1e-9 {
				bad(fmt.Sprintf("window %d holds items whose callback values %v and %v differ by more than 1", i, fi*k, la*k))
				return
			}
		}
	}
	c.Count("movingwindow_unsorted_checked", 1)
	if n >= 2 {
		c.NonTrivial(wk.Hash64(src, fmt.Sprint(vals)))
	}
}
