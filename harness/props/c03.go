package props

// C03 — operator priority, associativity and grouping for any operator table.
// Monitors (M-ast): (1) print -> parse round trip: the harness renders its own
// expression tree (full, minimal and random redundant parentheses) and the
// parsed AST must be that tree; (2) an independent reference parser
// (precedence climbing written from the property statement) decides
// accept/reject and the tree for single-token deletions/insertions.

import (
	"fmt"
	"math/rand/v2"
	"strconv"
	"strings"

	"github.com/hneemann/parser2"

	"verif/wk"
)

type c03 struct{}

func init() { register("C03", c03{}) }

func (c03) Plan(tier string) wk.Plan {
	n := int64(3000)
	if tier == "thorough" {
		n = 300_000
	}
	return wk.Plan{
		Level: "exploration", Cases: n, Chunk: 50, Configs: single("seq", 16), CaseBudget: 60,
		Rule:        "case = one random operator table (1..16 binary spellings over a symbol alphabet incl. multi-character spellings that are prefixes of one another and spellings outside ASCII; 0..3 prefix operators, each either also binary - at any position incl. first and last - or pure prefix; optional text aliases; optional if/try keywords) x 40 random expression trees (binary, prefix, calls, index, member, method call, list/map literal, closures, if/try) each rendered fully parenthesised, minimally parenthesised by the property's rules and with random redundant parentheses -> parsed AST must equal the tree; then single-token deletions, insertions and replacements (by operators, brackets, separators, keywords or another token of the expression) of the minimal rendering: the reference parser decides accept/reject (and the tree), the library must agree. A fixed corpus of tables (prefix operator = first/last binary operator) runs first. Non-trivial = expression with >= 2 distinct priorities or a prefix operator; distinct by (table, text).",
		Floor:       2000,
		Assumptions: []string{"tokens are separated by blanks (lexer corner cases are C15's subject)", "the reference parser encodes the accepted trailing comma in argument/list/map lists; string literals are not used (no string converter configured)"},
	}
}

type optable struct {
	bin     []string
	un      []string
	unPos   map[string]int    // index in bin or -1
	alias   map[string]string // alias text -> operator
	keyword bool
}

var opAlphabet = []string{"+", "-", "*", "/", "%", "^", "<", ">", "&", "|", "~", "?", "@", "#", "$", "!", "=", "<=", ">=", "<<", ">>", "<<<", "!=", "&&", "||", "**", "=>", "+-", "<>", "~=", "@@", "%%", "?:", "|>", "<|", "^^", "==",
	// spellings outside ASCII (multi-byte in UTF-8), alone and mixed with ASCII characters
	"≤", "≥", "≠", "∧", "∨", "¬", "<≥", "∘∘", "→", "≤≤", "±"}

func genTable(r *rand.Rand) *optable {
	t := &optable{unPos: map[string]int{}, alias: map[string]string{}}
	n := 1 + r.IntN(16)
	perm := r.Perm(len(opAlphabet))
	for _, i := range perm {
		if len(t.bin) == n {
			break
		}
		op := opAlphabet[i]
		if op == "=" && r.IntN(2) == 0 {
			continue
		}
		t.bin = append(t.bin, op)
	}
	nu := r.IntN(4)
	for k := 0; k < nu; k++ {
		if r.IntN(2) == 0 {
			// also binary: any position, biased to first and last
			pos := r.IntN(len(t.bin))
			switch r.IntN(4) {
			case 0:
				pos = 0
			case 1:
				pos = len(t.bin) - 1
			}
			if _, dup := t.unPos[t.bin[pos]]; !dup {
				t.un = append(t.un, t.bin[pos])
				t.unPos[t.bin[pos]] = pos
			}
		} else {
			for _, i := range perm {
				op := opAlphabet[len(opAlphabet)-1-i%len(opAlphabet)]
				used := op == "=" || op == "->"
				for _, b := range t.bin {
					if b == op {
						used = true
					}
				}
				if _, dup := t.unPos[op]; dup {
					used = true
				}
				if !used {
					t.un = append(t.un, op)
					t.unPos[op] = -1
					break
				}
			}
		}
	}
	if r.IntN(3) == 0 {
		for i, b := range t.bin {
			if r.IntN(3) == 0 {
				t.alias[fmt.Sprintf("op%d", i)] = b
			}
		}
	}
	t.keyword = r.IntN(3) == 0
	return t
}

func corpusTables() []*optable {
	mk := func(bin []string, un ...string) *optable {
		t := &optable{bin: bin, unPos: map[string]int{}, alias: map[string]string{}}
		for _, u := range un {
			t.un = append(t.un, u)
			t.unPos[u] = -1
			for i, b := range bin {
				if b == u {
					t.unPos[u] = i
				}
			}
		}
		return t
	}
	return []*optable{
		mk([]string{"+", "-"}, "-"), // prefix = last binary
		mk([]string{"-", "*"}, "-"), // prefix = first binary
		mk([]string{"-"}, "-"),      // single operator
		mk([]string{"+", "-", "*", "/", "^"}, "-", "!"),
		mk([]string{"<", "<<", "<<<", "<="}, "<<"),
		mk([]string{"|", "&", "=", "+", "*"}, "*", "+"),
	}
}

func (t *optable) parser() *parser2.Parser[float64] {
	p := parser2.NewParser[float64]().
		SetNumberParser(parser2.NumberParserFunc[float64](func(n string) (float64, error) { return strconv.ParseFloat(n, 64) }))
	p.Op(t.bin...)
	p.Unary(t.un...)
	if len(t.alias) > 0 {
		p.TextOperator(t.alias)
	}
	if t.keyword {
		p.SetKeyWords("if", "then", "else", "try", "catch")
	}
	return p
}

func (t *optable) String() string {
	return fmt.Sprintf("Op(%q).Unary(%q) alias=%v keywords=%v", t.bin, t.un, t.alias, t.keyword)
}

// ---- expression trees ----

type pt struct {
	k    string // id num bin un call index member method list map clo if try
	s    string // ident / number / member name / method name
	op   string
	kids []*pt
	keys []string // map keys / closure params
}

func (p *pt) sexp() string {
	switch p.k {
	case "id", "num":
		return p.s
	}
	var parts []string
	for _, c := range p.kids {
		parts = append(parts, c.sexp())
	}
	head := p.k
	switch p.k {
	case "bin", "un":
		head = p.k + "[" + p.op + "]"
	case "member", "method":
		head = p.k + "[" + p.s + "]"
	case "map":
		head = "map[" + strings.Join(p.keys, ",") + "]"
	case "clo":
		head = "clo[" + strings.Join(p.keys, ",") + "]"
	}
	return "(" + head + " " + strings.Join(parts, " ") + ")"
}

type treeGen struct {
	r     *rand.Rand
	t     *optable
	scope []string
	ctr   int
}

func (g *treeGen) leaf() *pt {
	if g.r.IntN(4) == 0 {
		return &pt{k: "num", s: []string{"1", "2", "3.5", "10", "0"}[g.r.IntN(5)]}
	}
	return &pt{k: "id", s: g.scope[g.r.IntN(len(g.scope))]}
}

func (g *treeGen) gen(d int) *pt {
	if d <= 0 {
		return g.leaf()
	}
	switch k := g.r.IntN(20); {
	case k < 9:
		op := g.t.bin[g.r.IntN(len(g.t.bin))]
		return &pt{k: "bin", op: op, kids: []*pt{g.gen(d - 1), g.gen(d - 1)}}
	case k < 12 && len(g.t.un) > 0:
		return &pt{k: "un", op: g.t.un[g.r.IntN(len(g.t.un))], kids: []*pt{g.gen(d - 1)}}
	case k == 12:
		n := g.r.IntN(3)
		kids := []*pt{g.postfixable(d - 1)}
		for i := 0; i < n; i++ {
			kids = append(kids, g.gen(d-1))
		}
		return &pt{k: "call", kids: kids}
	case k == 13:
		return &pt{k: "index", kids: []*pt{g.postfixable(d - 1), g.gen(d - 1)}}
	case k == 14:
		return &pt{k: "member", s: []string{"k", "m", "size"}[g.r.IntN(3)], kids: []*pt{g.postfixable(d - 1)}}
	case k == 15:
		kids := []*pt{g.postfixable(d - 1)}
		for i := 0; i < g.r.IntN(3); i++ {
			kids = append(kids, g.gen(d-1))
		}
		return &pt{k: "method", s: []string{"k", "m", "size"}[g.r.IntN(3)], kids: kids}
	case k == 16:
		var kids []*pt
		for i := 0; i < g.r.IntN(4); i++ {
			kids = append(kids, g.gen(d-1))
		}
		return &pt{k: "list", kids: kids}
	case k == 17:
		var kids []*pt
		var keys []string
		for i := 0; i < g.r.IntN(3); i++ {
			keys = append(keys, fmt.Sprintf("k%d", i))
			kids = append(kids, g.gen(d-1))
		}
		return &pt{k: "map", keys: keys, kids: kids}
	case k == 18:
		np := 1 + g.r.IntN(2)
		var ps []string
		for i := 0; i < np; i++ {
			g.ctr++
			ps = append(ps, fmt.Sprintf("x%d", g.ctr))
		}
		old := g.scope
		g.scope = append(append([]string{}, g.scope...), ps...)
		body := g.gen(d - 1)
		g.scope = old
		return &pt{k: "clo", keys: ps, kids: []*pt{body}}
	case k == 19 && g.t.keyword:
		if g.r.IntN(2) == 0 {
			return &pt{k: "if", kids: []*pt{g.gen(d - 1), g.gen(d - 1), g.gen(d - 1)}}
		}
		return &pt{k: "try", kids: []*pt{g.gen(d - 1), g.gen(d - 1)}}
	}
	return g.leaf()
}

func (g *treeGen) postfixable(d int) *pt {
	x := g.gen(d)
	return x
}

// ---- rendering to tokens ----

func (t *optable) prio(op string) int {
	for i, b := range t.bin {
		if b == op {
			return i
		}
	}
	return -1
}

func extendsRightPT(p *pt) bool { return p.k == "clo" || p.k == "if" || p.k == "try" }

// render modes: 0 full parentheses, 1 minimal, 2 minimal + random redundant parentheses
func (t *optable) render(p *pt, mode int, r *rand.Rand, out *[]string) {
	emit := func(s ...string) { *out = append(*out, s...) }
	paren := func(c *pt) {
		emit("(")
		t.render(c, mode, r, out)
		emit(")")
	}
	sub := func(c *pt, need bool) {
		if need || (mode == 2 && r.IntN(5) == 0) || (mode == 0 && (c.k == "bin" || c.k == "un")) {
			paren(c)
		} else {
			t.render(c, mode, r, out)
		}
	}
	opTok := func(op string) string {
		if mode != 0 && len(t.alias) > 0 && r.IntN(2) == 0 {
			for a, o := range t.alias {
				if o == op {
					return a
				}
			}
		}
		return op
	}
	switch p.k {
	case "id", "num":
		emit(p.s)
	case "bin":
		pr := t.prio(p.op)
		needs := func(c *pt, right bool) bool {
			switch {
			case extendsRightPT(c):
				return true
			case c.k == "bin":
				cp := t.prio(c.op)
				if right {
					return cp <= pr
				}
				return cp < pr
			case c.k == "un":
				// a prefix operator that is also binary swallows every operator of higher priority than its own
				// binary position: as an operand of such an operator it needs brackets (on the left always; on the
				// right the enclosing loop continues correctly only if nothing of higher priority follows, so bracket too)
				// (for a chain of prefix operators the one with the lowest binary position decides)
				minUp := 1 << 30
				for x := c; x.k == "un"; x = x.kids[0] {
					up := t.unPos[x.op]
					if up < 0 {
						break // a pure prefix operator takes a postfix expression only
					}
					if up < minUp {
						minUp = up
					}
				}
				return pr > minUp
			}
			return false
		}
		sub(p.kids[0], needs(p.kids[0], false))
		emit(opTok(p.op))
		sub(p.kids[1], needs(p.kids[1], true))
	case "un":
		emit(p.op)
		c := p.kids[0]
		up := t.unPos[p.op]
		need := false
		switch {
		case extendsRightPT(c):
			need = true
		case up < 0:
			// pure prefix: operand is a postfix expression
			need = c.k == "bin" || c.k == "un"
		case c.k == "bin":
			need = t.prio(c.op) <= up
		case c.k == "un":
			need = false
		}
		sub(c, need)
	case "call", "index", "member", "method":
		c := p.kids[0]
		need := c.k == "bin" || c.k == "un" || extendsRightPT(c) || c.k == "num"
		if p.k == "call" && c.k == "member" {
			need = true // x.m(...) is a method call; a call of the member needs brackets
		}
		sub(c, need)
		switch p.k {
		case "call":
			emit("(")
			for i, a := range p.kids[1:] {
				if i > 0 {
					emit(",")
				}
				t.render(a, mode, r, out)
			}
			emit(")")
		case "index":
			emit("[")
			t.render(p.kids[1], mode, r, out)
			emit("]")
		case "member":
			emit(".", p.s)
		case "method":
			emit(".", p.s, "(")
			for i, a := range p.kids[1:] {
				if i > 0 {
					emit(",")
				}
				t.render(a, mode, r, out)
			}
			emit(")")
		}
	case "list":
		emit("[")
		for i, a := range p.kids {
			if i > 0 {
				emit(",")
			}
			t.render(a, mode, r, out)
		}
		emit("]")
	case "map":
		emit("{")
		for i, a := range p.kids {
			if i > 0 {
				emit(",")
			}
			emit(p.keys[i], ":")
			t.render(a, mode, r, out)
		}
		emit("}")
	case "clo":
		if len(p.keys) == 1 {
			emit(p.keys[0], "->")
		} else {
			emit("(")
			for i, k := range p.keys {
				if i > 0 {
					emit(",")
				}
				emit(k)
			}
			emit(")", "->")
		}
		t.render(p.kids[0], mode, r, out)
	case "if":
		emit("if")
		t.render(p.kids[0], mode, r, out)
		emit("then")
		t.render(p.kids[1], mode, r, out)
		emit("else")
		t.render(p.kids[2], mode, r, out)
	case "try":
		emit("try")
		t.render(p.kids[0], mode, r, out)
		emit("catch")
		t.render(p.kids[1], mode, r, out)
	}
}

// ---- library AST -> s-expression ----

func astSexp(a parser2.AST) string {
	switch n := a.(type) {
	case *parser2.Ident:
		return n.Name
	case *parser2.Const[float64]:
		return strconv.FormatFloat(n.Value, 'g', -1, 64)
	case *parser2.Operate:
		return "(bin[" + n.Operator + "] " + astSexp(n.A) + " " + astSexp(n.B) + ")"
	case *parser2.Unary:
		return "(un[" + n.Operator + "] " + astSexp(n.Value) + ")"
	case *parser2.FunctionCall:
		parts := []string{astSexp(n.Func)}
		for _, x := range n.Args {
			parts = append(parts, astSexp(x))
		}
		return "(call " + strings.Join(parts, " ") + ")"
	case *parser2.ListAccess:
		return "(index " + astSexp(n.List) + " " + astSexp(n.Index) + ")"
	case *parser2.MapAccess:
		return "(member[" + n.Key + "] " + astSexp(n.MapValue) + ")"
	case *parser2.MethodCall:
		parts := []string{astSexp(n.Value)}
		for _, x := range n.Args {
			parts = append(parts, astSexp(x))
		}
		return "(method[" + n.Name + "] " + strings.Join(parts, " ") + ")"
	case *parser2.ListLiteral:
		var parts []string
		for _, x := range n.List {
			parts = append(parts, astSexp(x))
		}
		return "(list " + strings.Join(parts, " ") + ")"
	case *parser2.MapLiteral:
		var keys, parts []string
		n.Map.Iter(func(k string, v parser2.AST) bool {
			keys = append(keys, k)
			parts = append(parts, astSexp(v))
			return true
		})
		return "(map[" + strings.Join(keys, ",") + "] " + strings.Join(parts, " ") + ")"
	case *parser2.ClosureLiteral:
		return "(clo[" + strings.Join(n.Names, ",") + "] " + astSexp(n.Func) + ")"
	case *parser2.If:
		return "(if " + astSexp(n.Cond) + " " + astSexp(n.Then) + " " + astSexp(n.Else) + ")"
	case *parser2.TryCatch:
		return "(try " + astSexp(n.Try) + " " + astSexp(n.Catch) + ")"
	}
	return fmt.Sprintf("<%T>", a)
}

func numSexp(s string) string {
	f, _ := strconv.ParseFloat(s, 64)
	return strconv.FormatFloat(f, 'g', -1, 64)
}

func (p *pt) normalized() string {
	// numbers as the library prints them
	cp := *p
	if p.k == "num" {
		return numSexp(p.s)
	}
	if p.k == "id" {
		return p.s
	}
	var parts []string
	for _, c := range p.kids {
		parts = append(parts, c.normalized())
	}
	head := cp.k
	switch p.k {
	case "bin", "un":
		head = p.k + "[" + p.op + "]"
	case "member", "method":
		head = p.k + "[" + p.s + "]"
	case "map":
		head = "map[" + strings.Join(p.keys, ",") + "]"
	case "clo":
		head = "clo[" + strings.Join(p.keys, ",") + "]"
	}
	return "(" + head + " " + strings.Join(parts, " ") + ")"
}

// ---- reference parser over tokens ----

type refParser struct {
	t     *optable
	toks  []string
	pos   int
	scope map[string]int
}

type parseErr struct{ msg string }

func (rp *refParser) peek() string {
	if rp.pos < len(rp.toks) {
		return rp.toks[rp.pos]
	}
	return "\x00EOF"
}
func (rp *refParser) next() string            { s := rp.peek(); rp.pos++; return s }
func (rp *refParser) fail(f string, a ...any) { panic(parseErr{fmt.Sprintf(f, a...)}) }

func (rp *refParser) opOf(tok string) (string, bool) {
	if o, ok := rp.t.alias[tok]; ok {
		return o, true
	}
	for _, b := range rp.t.bin {
		if b == tok {
			return b, true
		}
	}
	for _, u := range rp.t.un {
		if u == tok {
			return u, true
		}
	}
	return "", false
}

func isIdentTok(s string) bool {
	if s == "" {
		return false
	}
	c := s[0]
	return (c >= 'a' && c <= 'z') || c == '_'
}

func (rp *refParser) isKeyword(s string) bool {
	if !rp.t.keyword {
		return false
	}
	switch s {
	case "if", "then", "else", "try", "catch":
		return true
	}
	return false
}

func (rp *refParser) isPlainIdent(s string) bool {
	if !isIdentTok(s) || rp.isKeyword(s) {
		return false
	}
	_, alias := rp.t.alias[s]
	return !alias
}

func isNumTok(s string) bool { return s != "" && s[0] >= '0' && s[0] <= '9' }

func (rp *refParser) level(l int) *pt {
	if l >= len(rp.t.bin) {
		return rp.unary()
	}
	a := rp.level(l + 1)
	for {
		op, ok := rp.opOf(rp.peek())
		if !ok || op != rp.t.bin[l] {
			return a
		}
		rp.next()
		b := rp.level(l + 1)
		a = &pt{k: "bin", op: op, kids: []*pt{a, b}}
	}
}

func (rp *refParser) unary() *pt {
	if op, ok := rp.opOf(rp.peek()); ok {
		if pos, isUn := rp.t.unPos[op]; isUn {
			rp.next()
			var inner *pt
			if pos >= 0 {
				inner = rp.level(pos + 1)
			} else {
				inner = rp.postfix()
			}
			return &pt{k: "un", op: op, kids: []*pt{inner}}
		}
	}
	return rp.postfix()
}

func (rp *refParser) args(closeTok string) []*pt {
	var out []*pt
	if rp.peek() == closeTok {
		rp.next()
		return out
	}
	for {
		out = append(out, rp.level(0))
		t := rp.next()
		if t == closeTok {
			return out
		}
		if t != "," {
			rp.fail("expected , or %s, found %s", closeTok, t)
		}
		if rp.peek() == closeTok { // a trailing comma is accepted
			rp.next()
			return out
		}
	}
}

func (rp *refParser) postfix() *pt {
	e := rp.literal()
	for {
		switch rp.peek() {
		case ".":
			rp.next()
			name := rp.next()
			if !rp.isPlainIdent(name) {
				rp.fail("expected identifier behind '.', found %s", name)
			}
			if rp.peek() == "(" {
				rp.next()
				e = &pt{k: "method", s: name, kids: append([]*pt{e}, rp.args(")")...)}
			} else {
				e = &pt{k: "member", s: name, kids: []*pt{e}}
			}
		case "(":
			rp.next()
			e = &pt{k: "call", kids: append([]*pt{e}, rp.args(")")...)}
		case "[":
			rp.next()
			i := rp.level(0)
			if rp.next() != "]" {
				rp.fail("expected ]")
			}
			e = &pt{k: "index", kids: []*pt{e, i}}
		default:
			return e
		}
	}
}

func (rp *refParser) withScope(names []string, f func() *pt) *pt {
	for _, n := range names {
		rp.scope[n]++
	}
	r := f()
	for _, n := range names {
		rp.scope[n]--
	}
	return r
}

func (rp *refParser) literal() *pt {
	t := rp.next()
	switch {
	case rp.isPlainIdent(t):
		if rp.peek() == "->" {
			rp.next()
			body := rp.withScope([]string{t}, func() *pt { return rp.level(0) })
			return &pt{k: "clo", keys: []string{t}, kids: []*pt{body}}
		}
		if rp.scope[t] == 0 {
			rp.fail("identifier %s not found", t)
		}
		return &pt{k: "id", s: t}
	case isNumTok(t):
		return &pt{k: "num", s: t}
	case t == "(":
		if rp.isPlainIdent(rp.peek()) && rp.pos+1 < len(rp.toks) && rp.toks[rp.pos+1] == "," {
			var names []string
			for {
				n := rp.next()
				if !rp.isPlainIdent(n) {
					rp.fail("expected identifier in parameter list, found %s", n)
				}
				for _, x := range names {
					if x == n {
						rp.fail("parameter used twice")
					}
				}
				names = append(names, n)
				s := rp.next()
				if s == ")" {
					break
				}
				if s != "," {
					rp.fail("expected , or ) in parameter list")
				}
			}
			if rp.next() != "->" {
				rp.fail("expected ->")
			}
			body := rp.withScope(names, func() *pt { return rp.level(0) })
			return &pt{k: "clo", keys: names, kids: []*pt{body}}
		}
		e := rp.level(0)
		if rp.next() != ")" {
			rp.fail("expected )")
		}
		return e
	case t == "[":
		return &pt{k: "list", kids: rp.args("]")}
	case t == "{":
		m := &pt{k: "map"}
		for {
			k := rp.next()
			if k == "}" {
				return m
			}
			if !rp.isPlainIdent(k) {
				rp.fail("expected key, found %s", k)
			}
			for _, x := range m.keys {
				if x == k {
					rp.fail("key used twice")
				}
			}
			if rp.next() != ":" {
				rp.fail("expected :")
			}
			m.keys = append(m.keys, k)
			m.kids = append(m.kids, rp.level(0))
			if rp.peek() == "," {
				rp.next()
			} else if rp.peek() != "}" {
				rp.fail("expected , or }")
			}
		}
	case rp.t.keyword && t == "if":
		c := rp.level(0)
		if rp.next() != "then" {
			rp.fail("expected then")
		}
		a := rp.level(0)
		if rp.next() != "else" {
			rp.fail("expected else")
		}
		b := rp.level(0)
		return &pt{k: "if", kids: []*pt{c, a, b}}
	case rp.t.keyword && t == "try":
		a := rp.level(0)
		if rp.next() != "catch" {
			rp.fail("expected catch")
		}
		b := rp.level(0)
		return &pt{k: "try", kids: []*pt{a, b}}
	}
	rp.fail("unexpected token %s", t)
	return nil
}

func (t *optable) refParse(toks []string, scope []string) (tree *pt, err error) {
	rp := &refParser{t: t, toks: toks, scope: map[string]int{}}
	for _, s := range scope {
		rp.scope[s]++
	}
	defer func() {
		if r := recover(); r != nil {
			if pe, ok := r.(parseErr); ok {
				tree, err = nil, fmt.Errorf("%s", pe.msg)
				return
			}
			panic(r)
		}
	}()
	tree = rp.level(0)
	if rp.pos != len(toks) {
		return nil, fmt.Errorf("trailing tokens")
	}
	return tree, nil
}

var c03scope = []string{"a", "b", "c", "d", "f", "g"}

func libParse(p *parser2.Parser[float64], src string) (s string, err error, pan any) {
	defer func() {
		if r := recover(); r != nil {
			pan = r
		}
	}()
	var ids parser2.Identifiers[float64]
	for _, n := range c03scope {
		ids = ids.Add(n)
	}
	ast, e := p.Parse(src, ids)
	if e != nil {
		return "", e, nil
	}
	return astSexp(ast), nil, nil
}

func (c03) Run(c *wk.Case) {
	var t *optable
	corp := corpusTables()
	if c.Index < int64(len(corp)) {
		t = corp[c.Index]
	} else {
		t = genTable(c.Rng)
	}
	p := t.parser()
	g := &treeGen{r: c.Rng, t: t, scope: c03scope}
	muts := []string{"(", ")", "[", "]", ",", "a", "1"}
	muts = append(muts, t.bin...)
	muts = append(muts, t.un...)
	muts = append(muts, ".", "{", "}", ":", "->")
	if t.keyword {
		muts = append(muts, "if", "then", "else", "try", "catch")
	}
	for e := 0; e < 40; e++ {
		tree := g.gen(1 + c.Rng.IntN(4))
		want := tree.normalized()
		var minimal []string
		for mode := 0; mode < 3; mode++ {
			var toks []string
			t.render(tree, mode, c.Rng, &toks)
			if mode == 1 {
				minimal = toks
			}
			src := strings.Join(toks, " ")
			got, err, pan := libParse(p, src)
			if pan != nil {
				c.Violation("parse-panics", fmt.Sprintf("%s: Parse(%q) panics: %v", t, src, pan), map[string]any{"table": t.String(), "src": src})
				return
			}
			if err != nil {
				c.Violation("valid-expression-rejected", fmt.Sprintf("%s: Parse(%q) fails: %v; intended tree %s", t, src, err, want), map[string]any{"table": t.String(), "src": src, "tree": want})
				return
			}
			if got != want {
				c.Violation("wrong-grouping", fmt.Sprintf("%s: %q parsed as %s, intended %s", t, src, got, want), map[string]any{"table": t.String(), "src": src, "parsed": got, "tree": want})
				return
			}
			// the reference parser must agree with the harness renderer (self check of the oracle)
			if rt, rerr := t.refParse(toks, c03scope); rerr != nil || rt.normalized() != want {
				c.Inconclusive("reference-parser-disagrees-with-renderer", fmt.Sprintf("%s: %q", t, src))
				return
			}
			c.Count("round_trips", 1)
		}
		// single-token mutations of the minimal rendering
		for m := 0; m < 12 && len(minimal) > 0; m++ {
			var toks []string
			pos := c.Rng.IntN(len(minimal))
			switch c.Rng.IntN(3) {
			case 0:
				toks = append(append([]string{}, minimal[:pos]...), minimal[pos+1:]...)
			case 1:
				toks = append(append(append([]string{}, minimal[:pos]...), muts[c.Rng.IntN(len(muts))]), minimal[pos:]...)
			default:
				// replacement: another token of the vocabulary (or of the expression itself) in place of one token
				toks = append([]string{}, minimal...)
				if c.Rng.IntN(3) == 0 {
					toks[pos] = minimal[c.Rng.IntN(len(minimal))]
				} else {
					toks[pos] = muts[c.Rng.IntN(len(muts))]
				}
			}
			src := strings.Join(toks, " ")
			rt, rerr := t.refParse(toks, c03scope)
			got, err, pan := libParse(p, src)
			if pan != nil {
				c.Violation("parse-panics", fmt.Sprintf("%s: Parse(%q) panics: %v", t, src, pan), map[string]any{"table": t.String(), "src": src})
				return
			}
			switch {
			case rerr != nil && err == nil:
				c.Violation("malformed-input-accepted", fmt.Sprintf("%s: malformed %q (%v) accepted as %s", t, src, rerr, got), map[string]any{"table": t.String(), "src": src, "parsed": got, "why_malformed": rerr.Error()})
				return
			case rerr == nil && err != nil:
				c.Violation("valid-expression-rejected", fmt.Sprintf("%s: Parse(%q) fails: %v; reference tree %s", t, src, err, rt.normalized()), map[string]any{"table": t.String(), "src": src})
				return
			case rerr == nil && got != rt.normalized():
				c.Violation("wrong-grouping", fmt.Sprintf("%s: %q parsed as %s, reference parser %s", t, src, got, rt.normalized()), map[string]any{"table": t.String(), "src": src, "parsed": got, "tree": rt.normalized()})
				return
			}
			if rerr != nil {
				c.Count("mutations_rejected_by_both", 1)
			} else {
				c.Count("mutations_accepted_by_both", 1)
			}
		}
		prios := map[int]bool{}
		hasUn := false
		var walk func(*pt)
		walk = func(x *pt) {
			if x.k == "bin" {
				prios[t.prio(x.op)] = true
			}
			if x.k == "un" {
				hasUn = true
			}
			for _, k := range x.kids {
				walk(k)
			}
		}
		walk(tree)
		if len(prios) >= 2 || hasUn {
			c.NonTrivial(wk.Hash64(t.String(), strings.Join(minimal, " ")))
			if e == 0 && c.Index%100 == 0 {
				c.Sample(map[string]any{"table": t.String(), "expression": strings.Join(minimal, " "), "tree": want})
			}
		}
	}
	c.Evals(40)
}
