package props

// C16 — implicit-attribute mode equals explicit member access everywhere.
// Oracle: GenerateWithMap(exp, "m") vs Generate(exp', "m") on the real code
// (exp' = exp with every free identifier written as m.x), reference model on
// the explicit reading as third opinion, M-slot as witness.

import (
	"fmt"

	"github.com/hneemann/parser2/funcGen"
	"github.com/hneemann/parser2/value"
	"github.com/hneemann/parser2/value/export"

	"verif/bridge"
	"verif/gen"
	"verif/mon"
	"verif/ref"
	"verif/wk"
)

type c16 struct{}

func init() { register("C16", c16{}) }

func (c16) Plan(tier string) wk.Plan {
	n := int64(60000)
	if tier == "thorough" {
		n = 4_000_000
	}
	return wk.Plan{
		Level: "exploration", Cases: n, Chunk: 500, Configs: single("seq", 16), CaseBudget: 8,
		Rule:        "case = one generated program (as C01) whose free identifiers are the attributes of one argument map; printed twice from the same tree: implicit (x) and explicit (m.x, bound occurrences untouched, so locals shadow attributes); GenerateWithMap(implicit,\"m\") and Generate(explicit,\"m\") are evaluated on the same argument map in every representation (literal, hash map, put chain, merge, replace wrapper). Refuting events: generate-ok differs, outcomes differ, either differs from the reference model, let-bind slot mismatch. A fixed corpus (attribute inside closure / nested closures / func body / let inside argument / shadowing) runs first. Non-trivial = an attribute is used inside a closure or func body (measured on the tree); distinct by source.",
		Floor:       200,
		Assumptions: []string{"reference interpreter as in C01; one CPU"},
	}
}

var c16dials = gen.Dials{MaxDepth: 6, Budget: 60, VarLeaf: 0.8, Bind: 0.45, Fault: 0.005}

type c16corp struct {
	prog  *ref.Node
	attrs []string
	types []*gen.Ty
}

func c16Corpus() []c16corp {
	x, l := ref.Id("x"), ref.Id("l")
	e := ref.Id("e")
	tI, tL := gen.TInt, gen.TList(gen.TInt)
	at := []string{"x", "l"}
	ty := []*gen.Ty{tI, tL}
	return []c16corp{
		{ref.Method(ref.Method(l, "map", ref.Clo([]string{"e"}, ref.Bin("*", e, x))), "sum"), at, ty},
		{ref.Method(ref.Method(l, "map", ref.Clo([]string{"e"}, ref.Method(ref.Method(l, "map", ref.Clo([]string{"q"}, ref.Bin("*", ref.Bin("*", ref.Id("q"), x), e))), "sum"))), "sum"), at, ty},
		{ref.Func("f", []string{"a"}, ref.Bin("*", ref.Id("a"), x), ref.Call(ref.Id("f"), ref.Int(3))), at, ty},
		{ref.Static("max", x, ref.Let("y", ref.Bin("+", x, ref.Int(1)), ref.Call(ref.Clo([]string{"p"}, ref.Bin("+", ref.Id("p"), ref.Bin("*", ref.Id("y"), x))), ref.Int(2)))), at, ty},
		{ref.Let("x", ref.Int(5), ref.Call(ref.Clo([]string{"e"}, ref.Bin("+", ref.Id("x"), e)), ref.Int(1))), at, ty}, // local shadows attribute
		{ref.Call(ref.Clo([]string{"x"}, ref.Bin("+", ref.Id("x"), ref.Method(l, "size"))), ref.Int(7)), at, ty},       // parameter shadows attribute
		{ref.Func("f", []string{"n"}, ref.If(ref.Bin("<=", ref.Id("n"), ref.Int(0)), x, ref.Bin("+", ref.Call(ref.Id("f"), ref.Bin("-", ref.Id("n"), ref.Int(1))), x)), ref.Call(ref.Id("f"), ref.Int(3))), at, ty},
		{ref.Call(ref.Call(ref.Clo([]string{"a"}, ref.Clo([]string{"b"}, ref.Bin("+", ref.Bin("+", ref.Id("a"), ref.Id("b")), x))), ref.Int(1)), ref.Int(2)), at, ty},
	}
}

func attrInClosure(n *ref.Node, attrs map[string]bool, depth int, bound map[string]int) bool {
	if n == nil {
		return false
	}
	found := false
	with := func(names []string, f func()) {
		for _, x := range names {
			bound[x]++
		}
		f()
		for _, x := range names {
			bound[x]--
		}
	}
	switch n.K {
	case ref.KIdent:
		return depth > 0 && attrs[n.Name] && bound[n.Name] == 0
	case ref.KClosure:
		with(n.Params, func() { found = attrInClosure(n.X, attrs, depth+1, bound) })
		return found
	case ref.KFunc:
		with([]string{n.Name}, func() {
			with(n.Params, func() { found = attrInClosure(n.X, attrs, depth+1, bound) })
			found = found || attrInClosure(n.Y, attrs, depth, bound)
		})
		return found
	case ref.KLet:
		if attrInClosure(n.X, attrs, depth, bound) {
			return true
		}
		with([]string{n.Name}, func() { found = attrInClosure(n.Y, attrs, depth, bound) })
		return found
	}
	for _, ch := range []*ref.Node{n.X, n.Y, n.Z} {
		if attrInClosure(ch, attrs, depth, bound) {
			return true
		}
	}
	for _, l := range [][]*ref.Node{n.Args, n.CaseC, n.CaseR} {
		for _, ch := range l {
			if attrInClosure(ch, attrs, depth, bound) {
				return true
			}
		}
	}
	return false
}

func (c16) Run(c *wk.Case) {
	mon.InstallSlot()
	vl := getPlainVlang()
	g := vl.opt
	if c.Index%4 == 3 {
		g = vl.noopt
	}
	var p *gen.Program
	corpus := c16Corpus()
	label := "generated"
	if raw := c16RawCorpus(); c.Index >= int64(len(corpus)) && c.Index < int64(len(corpus)+len(raw)) {
		c16Raw(c, g, raw[c.Index-int64(len(corpus))])
		return
	}
	if c.Index < int64(len(corpus)) {
		cp := corpus[c.Index]
		p = &gen.Program{Root: cp.prog, ArgNames: cp.attrs, ArgTypes: cp.types}
		label = fmt.Sprintf("corpus:%d", c.Index)
	} else {
		p = gen.GenProgram(c.Rng, c16dials, 1+c.Rng.IntN(4))
	}
	// the name of the map variable changes from call to call on the one generator
	mname := []string{"m", "rec", "self", "m", "data", "m0"}[c.Rng.IntN(6)]
	attrs := map[string]bool{}
	for _, a := range p.ArgNames {
		attrs[a] = true
	}
	impOpts := ref.PrintOpts{}
	if c.Index%3 == 2 {
		// mixed program: some attribute uses are written explicitly through the map variable, which
		// is the argument of the generated function and has to stay visible as such
		impOpts = ref.PrintOpts{MapName: mname, Attrs: attrs, Mixed: true, MixMask: c.Rng.Uint64() & c.Rng.Uint64()}
		c.Count("mixed_programs", 1)
	}
	imp, ok1 := safeSource(p.Root, impOpts)
	exp, ok2 := safeSource(p.Root, ref.PrintOpts{MapName: mname, Attrs: attrs})
	if !ok1 || !ok2 {
		c.Inconclusive("generator-bug", "let in a forbidden position")
		return
	}
	c.Logf("implicit: %s\nexplicit: %s", imp, exp)
	var fImp, fExp funcGen.Func[value.Value]
	var errI, errE error
	var panI, panE any
	func() {
		defer func() {
			if r := recover(); r != nil {
				panI = r
			}
		}()
		fImp, _, errI = g.GenerateWithMap(imp, mname)
	}()
	fExp, errE, panE = generate(g, exp, []string{mname})
	if panI != nil || panE != nil {
		c.Violation("generate-panic", fmt.Sprintf("[%s] Generate panics: implicit %q: %v; explicit %q: %v", label, imp, panI, exp, panE), map[string]any{"implicit": imp, "explicit": exp})
		return
	}
	if (errI == nil) != (errE == nil) {
		c.Violation("implicit-explicit-generate-differs", fmt.Sprintf("[%s] GenerateWithMap(%q): %v; Generate(%q): %v", label, imp, errI, exp, errE), map[string]any{"implicit": imp, "explicit": exp})
		return
	}
	if errI != nil {
		c.Count("generate_errors_both", 1)
		return
	}
	in := ref.NewInterp()
	for k := 0; k < 3; k++ {
		tu := genArgs(c.Rng, p)
		mref := ref.NewMap()
		for i, a := range p.ArgNames {
			mref.Keys = append(mref.Keys, a)
			mref.Vals = append(mref.Vals, tu[i])
		}
		kind := c.Rng.IntN(5)
		va := bridge.Variant{LazyLists: c.Rng.IntN(2) == 0, MapKind: kind}
		if kind == 1 {
			tu = hashMapArgs(tu)
			mref = markUnordered(mref).(*ref.Map)
		}
		wv, we, rae := refEval(in, p.Root, p.ArgNames, tu)
		if we != nil && (we.Budget || we.Unspec) {
			c.Count("reference_unspecified", 1)
			continue
		}
		mon.TheSlot.Take()
		wrap := func(m value.Value) value.Value {
			if c.Index%7 == 3 {
				// a host value that only acts as a map (ToMap), here the exporter's formatting wrapper
				return export.Format{Value: m}
			}
			return m
		}
		gi := evalReal(fImp, []value.Value{wrap(bridge.RealMap(mref, va))})
		ge := evalReal(fExp, []value.Value{wrap(bridge.RealMap(mref, va))})
		if c.Verbose {
			c.Logf("map %s: implicit %s err=%v | explicit %s err=%v | reference %s err=%v", ref.Describe(mref), bridge.Describe(gi.Val), gi.Err, bridge.Describe(ge.Val), ge.Err, ref.Describe(wv), we)
		}
		if mm := mon.TheSlot.Take(); len(mm) > 0 {
			c.Violation("slot-mismatch", fmt.Sprintf("[%s] %q: %s", label, imp, mm[0]), map[string]any{"implicit": imp, "events": mm})
			return
		}
		if (gi.Err == nil) != (ge.Err == nil) {
			c.Violation("implicit-explicit-outcome-differs", fmt.Sprintf("[%s] map %s: GenerateWithMap(%q) -> %s err=%v; Generate(%q) -> %s err=%v", label, ref.Describe(mref), imp, bridge.Describe(gi.Val), gi.Err, exp, bridge.Describe(ge.Val), ge.Err),
				map[string]any{"implicit": imp, "explicit": exp, "map": ref.Describe(mref)})
			return
		}
		if gi.Err == nil {
			if ok, d := realEqual(gi.Val, ge.Val, false, ""); !ok {
				c.Violation("implicit-explicit-outcome-differs", fmt.Sprintf("[%s] map %s: %q vs %q: %s", label, ref.Describe(mref), imp, exp, d), map[string]any{"implicit": imp, "explicit": exp, "map": ref.Describe(mref), "diff": d})
				return
			}
		}
		gi.FloatTol = regroupTol(g == vl.opt, imp)
		if v, why := bridge.CompareOutcome(wv, we, rae, gi); v == bridge.Disagree {
			c.Violation("outcome-differs-from-reference", fmt.Sprintf("[%s] map %s: %q: %s", label, ref.Describe(mref), imp, why), map[string]any{"implicit": imp, "map": ref.Describe(mref), "why": why})
			return
		}
		c.Count("agreed_outcomes", 1)
	}
	c.Count("hook_letbind_events", mon.TheSlot.Events.Swap(0))
	if attrInClosure(p.Root, attrs, 0, map[string]int{}) {
		c.NonTrivial(wk.Hash64(imp))
		c.Sample(map[string]any{"implicit": imp, "explicit": exp})
	}
}

// raw corpus: the map variable itself used as a value in an implicit-attribute program
// (implicit text, explicit text, expected result on {x:10, y:3, l:[1,2,3], f:v->v*2+1, get:k->"closure:"+k, total:(...)->sum})
func c16RawCorpus() [][3]string {
	return [][3]string{
		{"x+m.y", "m.x+m.y", "13"},
		{"l.map(e->e*x+m.y).sum()", "m.l.map(e->e*m.x+m.y).sum()", "69"},
		{"func g(a) a.x*y; g(m)", "func g(a) a.x*m.y; g(m)", "30"},
		{"m.size()+x", "m.size()+m.x", "16"},
		{"let q=m; q.x+y", "let q=m; q.x+m.y", "13"},
		{"(p->p.y+x)(m)", "(p->p.y+m.x)(m)", "13"},
		{"l.map(e->m.isAvail(\"x\") & x>e).string()", "m.l.map(e->m.isAvail(\"x\") & m.x>e).string()", "\"[true, true, true]\""},
		{"m.map((k,v)->if k=\"x\" | k=\"y\" then v+y else 0).x", "m.map((k,v)->if k=\"x\" | k=\"y\" then v+m.y else 0).x", "13"},
		// an attribute that holds a closure (f: v->v*2+1) is called
		{"f(x)", "m.f(m.x)", "21"},
		{"f(let t=x+1; t*y)", "m.f(let t=m.x+1; t*m.y)", "67"},
		{"l.map(e->f(e)).sum()", "m.l.map(e->m.f(e)).sum()", "15"},
		{"let h=f; h(y)+f(1)", "let h=m.f; h(m.y)+m.f(1)", "10"},
		// an attribute holding a closure is named like a map method (get); a closure of the host takes any number of arguments (total)
		{"get(\"x\")", "m.get(\"x\")", "\"closure:x\""},
		{"l.map(e->get(\"k\"+e)).size()", "m.l.map(e->m.get(\"k\"+e)).size()", "3"},
		{"total(x, y)", "m.total(m.x, m.y)", "13"},
		{"total()+total(x)+total(x, y, 1)", "m.total()+m.total(m.x)+m.total(m.x, m.y, 1)", "24"},
		{"l.map(e->total(e, x)).sum()", "m.l.map(e->m.total(e, m.x)).sum()", "36"},
	}
}

func c16Raw(c *wk.Case, g *value.FunctionGenerator, it [3]string) {
	mref := ref.NewMap()
	mref.Keys = []string{"x", "y", "l"}
	mref.Vals = []ref.Value{int64(10), int64(3), ref.NewList(int64(1), int64(2), int64(3))}
	fclo := value.Closure(funcGen.Function[value.Value]{Func: func(st funcGen.Stack[value.Value], cs []value.Value) (value.Value, error) {
		if v, ok := st.Get(0).(value.Int); ok {
			return v*2 + 1, nil
		}
		return nil, fmt.Errorf("f needs an int")
	}, Args: 1, IsPure: true})
	withF := func(m value.Value, wrapped bool) value.Value {
		mm, _ := m.ToMap()
		getClo := value.Closure(funcGen.Function[value.Value]{Func: func(st funcGen.Stack[value.Value], cs []value.Value) (value.Value, error) {
			s, _ := st.Get(0).ToString(st)
			return value.String("closure:" + s), nil
		}, Args: 1, IsPure: true})
		totalClo := value.Closure(funcGen.Function[value.Value]{Func: func(st funcGen.Stack[value.Value], cs []value.Value) (value.Value, error) {
			sum := value.Int(0)
			for i := 0; i < st.Size(); i++ {
				v, ok := st.Get(i).(value.Int)
				if !ok {
					return nil, fmt.Errorf("total needs ints")
				}
				sum += v
			}
			return sum, nil
		}, Args: -1, IsPure: true})
		put := mm
		for _, kv := range []struct {
			k string
			v value.Value
		}{{"f", fclo}, {"get", getClo}, {"total", totalClo}} {
			var err error
			put, err = put.PutM(funcGen.NewEmptyStack[value.Value]().Init(put, value.String(kv.k), kv.v))
			if err != nil {
				panic(err)
			}
		}
		var out value.Value = put
		if wrapped {
			// a host value that only acts as a map (ToMap): the exporter's formatting wrapper
			out = export.Format{Value: out}
		}
		return out
	}
	var fImp funcGen.Func[value.Value]
	var errI error
	var panI any
	func() {
		defer func() {
			if r := recover(); r != nil {
				panI = r
			}
		}()
		fImp, _, errI = g.GenerateWithMap(it[0], "m")
	}()
	fExp, errE, panE := generate(g, it[1], []string{"m"})
	if panI != nil || panE != nil || errI != nil || errE != nil {
		c.Violation("implicit-explicit-generate-differs", fmt.Sprintf("[raw] GenerateWithMap(%q): %v %v; Generate(%q): %v %v", it[0], errI, panI, it[1], errE, panE), map[string]any{"implicit": it[0], "explicit": it[1]})
		return
	}
	for kind := 0; kind < 10; kind++ {
		va := bridge.Variant{LazyLists: kind%2 == 0, MapKind: kind % 5}
		gi := evalReal(fImp, []value.Value{withF(bridge.RealMap(mref, va), kind >= 5)})
		ge := evalReal(fExp, []value.Value{withF(bridge.RealMap(mref, va), kind >= 5)})
		si, se := "", ""
		if gi.Err == nil {
			si = bridge.Describe(gi.Val)
		}
		if ge.Err == nil {
			se = bridge.Describe(ge.Val)
		}
		bad := gi.Err != nil || ge.Err != nil || si != se || si != it[2]
		if kind >= 5 {
			// a wrapper has no methods of its own (m.size() fails in both forms): the two forms must agree
			bad = (gi.Err == nil) != (ge.Err == nil) || si != se || (gi.Err == nil && si != it[2])
		}
		if bad {
			c.Violation("implicit-explicit-outcome-differs", fmt.Sprintf("[raw, map kind %d] GenerateWithMap(%q) -> %s err=%v; Generate(%q) -> %s err=%v; expected %s", kind, it[0], si, gi.Err, it[1], se, ge.Err, it[2]),
				map[string]any{"implicit": it[0], "explicit": it[1]})
			return
		}
		c.Count("agreed_outcomes", 1)
	}
	c.NonTrivial(wk.Hash64(it[0]))
}
