package props

// C09 — lists and maps are persistent values: no operation changes an existing value.
// G-hist over list and map operations; after EVERY step EVERY live handle is
// observed again (string, size, =, elements) and compared with the purely
// functional model, so any later change of an earlier value is seen. The
// List.Append hook records the (len, spare capacity) state of every parent at
// every append for the evidence.

import (
	"fmt"
	"sync"

	"github.com/hneemann/parser2/value"

	"verif/ref"
	"verif/wk"
)

type c09 struct{}

func init() { register("C09", c09{}) }

func (c09) Plan(tier string) wk.Plan {
	n := int64(4000)
	if tier == "thorough" {
		n = 400_000
	}
	return wk.Plan{
		Level: "exploration", Cases: n, Chunk: 100, Configs: single("seq", 16), CaseBudget: 30,
		Rule:          "case = one history of up to 12 operations over a pool of live list and map handles: append, set, reverse, order/orderRev/orderLess, +, top/skip/map/accept (lazy), eval, full and partial iteration (first, top(k).size()), put, replace, + on maps, map/accept on maps; parents are materialised from lazy sources of every length 0..33 (so append-grown backing arrays reach every spare capacity), two and three appends branch from one parent in every order, appends to constant-folded lists (the same generated function evaluated repeatedly returns the same constant object). After EVERY step EVERY live handle is observed through string(), size(), = against a literal of the model, its elements, first/last/index; compared with the functional model. Non-trivial = history has a branching derivation (two derivations from one parent) and at least 4 successful steps; distinct by history text.",
		Floor:         200,
		FloorCounters: map[string]int64{"observations": 20000, "hook_append_events": 500},
		Assumptions:   []string{"model: immutable reference values; lists whose order is unspecified are compared as multisets"},
	}
}

var c09hook struct {
	once   sync.Once
	mu     sync.Mutex
	events int64
	states map[[2]int]bool // (len class, spare capacity)
}

func installC09Hook() {
	c09hook.once.Do(func() {
		c09hook.states = map[[2]int]bool{}
		value.VerifPoint = func(name string, a, b int) {
			if name == "List.Append.cap" {
				c09hook.mu.Lock()
				c09hook.events++
				spare := b - a
				if spare > 40 {
					spare = 40
				}
				c09hook.states[[2]int{min(a, 40), spare}] = true
				c09hook.mu.Unlock()
			}
		}
	})
}

func (h *hist) listHandles() []*handle {
	var out []*handle
	for _, x := range h.hs {
		if _, ok := x.ref.(*ref.List); ok {
			out = append(out, x)
		}
	}
	return out
}

func (h *hist) listStep() {
	ls := h.listHandles()
	h0 := ref.Id("h0")
	if len(ls) == 0 || h.r.IntN(12) == 0 {
		switch h.r.IntN(4) {
		case 0:
			n := h.r.IntN(34)
			h.hush(h.derive("lazy-source", ref.Method(ref.Static("numbers", ref.Int(int64(n))), "map", ref.Clo([]string{"x"}, ref.Bin("-", ref.Int(int64(n)), ref.Bin("*", ref.Id("x"), ref.Int(3)))))))
		case 1:
			// constant-folded list: the same object at every evaluation of this function
			h.derive("constant", ref.Method(ref.ListN(ref.Int(1), ref.Int(2), ref.Int(3)), "append", ref.Int(4)))
		case 2:
			h.derive("constant-lazy", ref.Method(ref.Static("numbers", ref.Int(int64(h.r.IntN(9)))), "map", ref.Clo([]string{"x"}, ref.Bin("*", ref.Id("x"), ref.Int(2)))))
		default:
			var items []*ref.Node
			for i := 0; i < h.r.IntN(6); i++ {
				items = append(items, ref.Int(int64(h.r.IntN(9))))
			}
			h.derive("literal", ref.ListN(items...))
		}
		return
	}
	// a lazily produced list nobody has looked at yet: apply an operation that has to materialise it
	// (and, in the library, works on a private copy), then - later - look at the parent
	var quiet []*handle
	for _, x := range ls {
		if x.quiet > 0 {
			quiet = append(quiet, x)
		}
	}
	if len(quiet) > 0 && h.r.IntN(5) != 0 {
		p := quiet[h.r.IntN(len(quiet))]
		neg := ref.Clo([]string{"x"}, ref.Un("-", ref.Id("x")))
		switch h.r.IntN(13) {
		case 11, 12:
			// the very first look at the unevaluated list is a comparison (with its model, with a longer and a
			// shorter list): what the list knows about itself before it is evaluated must not decide it
			if pl, ok := p.ref.(*ref.List); ok {
				if items, e := h.in.Force(pl); e == nil {
					mk := func(it []ref.Value) *handle {
						l := &handle{ref: ref.NewList(it...), how: "model literal"}
						l.real = toRealPlain(l.ref)
						return l
					}
					other := mk(items)
					switch h.r.IntN(3) {
					case 1:
						other = mk(append(append([]ref.Value{}, items...), int64(7)))
					case 2:
						if len(items) > 0 {
							other = mk(items[:len(items)-1])
						}
					}
					h.derive("equals-unevaluated", ref.ListN(ref.Try(ref.Bin("=", h0, ref.Id("h1")), ref.Str("failed")), ref.Try(ref.Bin("=", ref.Id("h1"), h0), ref.Str("failed")), ref.Method(h0, "size")), p, other)
				}
			}
		case 8, 9:
			// partial consumption of the unevaluated list: it must deliver all of its items to the next reader
			k := int64(h.r.IntN(4))
			part := []*ref.Node{
				ref.Try(ref.Method(h0, "first"), ref.Int(-1)),
				ref.Method(ref.Method(h0, "top", ref.Int(k)), "size"),
				ref.Method(h0, "present", ref.Clo([]string{"x"}, ref.Bin("=", ref.Id("x"), ref.Id("x")))),
				ref.Method(h0, "indexWhere", ref.Clo([]string{"x"}, ref.Bool(true))),
				ref.Try(ref.Method(ref.Method(h0, "skip", ref.Int(k)), "first"), ref.Int(-1)),
				ref.Try(ref.Bin("~", ref.Try(ref.Method(h0, "first"), ref.Int(-1)), h0), ref.Bool(false)),
			}
			h.derive("partial-unevaluated", ref.ListN(part[h.r.IntN(len(part))], part[h.r.IntN(len(part))]), p)
		case 10:
			h.derive("combineN-unevaluated", ref.Method(h0, "combineN", ref.Int(int64(1+h.r.IntN(3))), ref.Clo([]string{"w"}, ref.Id("w"))), p)
		case 0:
			h.derive("set-unevaluated", ref.Method(h0, "set", ref.Int(int64(h.r.IntN(3))), ref.Int(int64(100+h.r.IntN(900)))), p)
		case 1:
			h.derive("reverse-unevaluated", ref.Method(h0, "reverse"), p)
		case 2:
			h.derive("order-unevaluated", ref.Method(h0, "order", neg), p)
		case 3:
			h.derive("orderRev-unevaluated", ref.Method(h0, "orderRev", ref.Clo([]string{"x"}, ref.Id("x"))), p)
		case 4:
			h.derive("orderLess-unevaluated", ref.Method(h0, "orderLess", ref.Clo([]string{"x", "y"}, ref.Bin(">", ref.Id("x"), ref.Id("y")))), p)
		case 5:
			// list ~ list removes found items from a working copy of the left list
			h.derive("contains-unevaluated", ref.ListN(ref.Try(ref.Bin("~", h0, ref.Id("h1")), ref.Bool(false))), p, ls[h.r.IntN(len(ls))])
		case 6:
			h.derive("contains-right-unevaluated", ref.ListN(ref.Try(ref.Bin("~", ref.Id("h1"), h0), ref.Bool(false))), p, ls[h.r.IntN(len(ls))])
		default:
			h.derive("append-unevaluated", ref.Method(h0, "append", ref.Int(int64(100+h.r.IntN(900)))), p)
		}
		return
	}
	// bias: derive again from a recently used parent (branching)
	p := ls[h.r.IntN(len(ls))]
	if h.r.IntN(2) == 0 {
		p = ls[len(ls)-1-h.r.IntN(min(len(ls), 3))]
	}
	item := ref.Int(int64(100 + h.r.IntN(900)))
	switch h.r.IntN(20) {
	case 18, 19:
		// a cut that asks for more items than there are, behind a stage of unknown length; the first thing that
		// happens to the result is a comparison
		if pl, ok := p.ref.(*ref.List); ok {
			if items, e := h.in.Force(pl); e == nil {
				n := int64(len(items) + 1 + h.r.IntN(3))
				cutSrc := []*ref.Node{
					ref.Method(h0, "accept", ref.Clo([]string{"x"}, ref.Bin("!=", ref.Bin("%", ref.Id("x"), ref.Int(3)), ref.Int(0)))),
					ref.Method(h0, "skip", ref.Int(1)),
					ref.Bin("+", h0, ref.ListN()),
					ref.Method(h0, "compact", ref.Clo([]string{"x", "y"}, ref.Bin("=", ref.Id("x"), ref.Id("y")))),
				}[h.r.IntN(4)]
				var nh *handle
				if h.r.IntN(2) == 0 {
					nh = h.derive("top-beyond-end", ref.Method(cutSrc, "top", ref.Int(n)), p)
				} else {
					nh = h.derive("top-beyond-end-map", ref.Method(ref.Method(cutSrc, "top", ref.Int(n)), "map", ref.Clo([]string{"x"}, ref.Id("x"))), p)
				}
				if nh != nil {
					nh.quiet = 2
					if nl, ok := nh.ref.(*ref.List); ok {
						if its, e := h.in.Force(nl); e == nil {
							lit := &handle{ref: ref.NewList(its...), how: "model literal"}
							lit.real = toRealPlain(lit.ref)
							h.derive("equals-unevaluated", ref.ListN(ref.Try(ref.Bin("=", h0, ref.Id("h1")), ref.Str("failed")), ref.Try(ref.Bin("=", ref.Id("h1"), h0), ref.Str("failed")), ref.Method(h0, "size"), ref.Bin("=", h0, ref.Id("h1"))), nh, lit)
						}
					}
				}
			}
		}
	case 16:
		// windows that are kept: each must stay what it was when the source is read on
		h.hush(h.derive("combineN", ref.Method(h0, "combineN", ref.Int(int64(1+h.r.IntN(3))), ref.Clo([]string{"w"}, ref.Id("w"))), p))
	case 17:
		h.hush(h.derive("combine3-windows", ref.Method(h0, "combine3", ref.Clo([]string{"u", "v", "w"}, ref.ListN(ref.Id("u"), ref.Id("v"), ref.Id("w")))), p))
	case 0, 1, 2, 3, 4:
		h.derive("append", ref.Method(h0, "append", item), p)
	case 5:
		h.derive("set", ref.Method(h0, "set", ref.Int(int64(h.r.IntN(4))), item), p)
	case 6:
		h.derive("reverse", ref.Method(h0, "reverse"), p)
	case 7:
		h.derive([]string{"order", "orderRev"}[h.r.IntN(2)], ref.Method(h0, []string{"order", "orderRev"}[h.r.IntN(2)], ref.Clo([]string{"x"}, ref.Un("-", ref.Id("x")))), p)
	case 8:
		h.derive("orderLess", ref.Method(h0, "orderLess", ref.Clo([]string{"x", "y"}, ref.Bin("<", ref.Id("x"), ref.Id("y")))), p)
	case 9:
		h.hush(h.derive("+", ref.Bin("+", h0, ref.Id("h1")), p, ls[h.r.IntN(len(ls))]))
	case 10:
		h.hush(h.derive([]string{"top", "skip"}[h.r.IntN(2)], ref.Method(h0, []string{"top", "skip"}[h.r.IntN(2)], ref.Int(int64(h.r.IntN(5)))), p))
	case 11:
		h.hush(h.derive("map", ref.Method(h0, "map", ref.Clo([]string{"x"}, ref.Bin("+", ref.Id("x"), ref.Int(1000)))), p))
	case 12:
		h.hush(h.derive("accept", ref.Method(h0, "accept", ref.Clo([]string{"x"}, ref.Bin("!=", ref.Bin("%", ref.Id("x"), ref.Int(3)), ref.Int(0)))), p))
	case 13:
		h.derive("eval", ref.Method(h0, "eval"), p)
	case 14:
		// partial consumption of the parent: no new list handle, the parent must stay what it is
		h.derive("partial", ref.ListN(ref.Try(ref.Method(h0, "first"), ref.Int(-1)), ref.Method(ref.Method(h0, "top", ref.Int(int64(h.r.IntN(4)))), "size")), p)
	default:
		h.derive("replaceList", ref.Method(h0, "replaceList", ref.Clo([]string{"l"}, ref.Method(ref.Id("l"), "append", item))), p)
	}
}

// hush keeps a freshly made lazy list unobserved for one or two steps (a third of the time).
func (h *hist) hush(nh *handle) {
	if nh != nil && h.r.IntN(3) == 0 {
		nh.quiet = 1 + h.r.IntN(2)
		h.c.Count("handles_left_unevaluated", 1)
	}
}

func (h *hist) observeList(i int) bool {
	l, ok := h.hs[i].ref.(*ref.List)
	if !ok {
		return true
	}
	h0 := ref.Id("h0")
	if !h.observe(i, "elements", h0) || !h.observe(i, "string", ref.Method(h0, "string")) || !h.observe(i, "size", ref.Method(h0, "size")) ||
		!h.observe(i, "first", ref.Method(h0, "first")) || !h.observe(i, "last", ref.Method(h0, "last")) ||
		!h.observe(i, "index", ref.Index(h0, ref.Int(int64(h.r.IntN(4))))) || !h.observe(i, "sum-of-sizes", ref.Bin("+", ref.Method(h0, "size"), ref.Method(ref.Method(h0, "map", ref.Clo([]string{"x"}, ref.Id("x"))), "size"))) {
		return false
	}
	items, e := h.in.Force(l)
	if e == nil {
		lit := &handle{ref: ref.NewList(items...), real: nil, how: "model literal"}
		lit.real = toRealPlain(lit.ref)
		if !h.observe(i, "equals-model", ref.Bin("=", h0, ref.Id("h1")), lit) {
			return false
		}
	}
	return true
}

func (c09) Run(c *wk.Case) {
	installC09Hook()
	h := newHist(c)
	steps := 5 + h.r.IntN(8)
	mode := c.Index % 4
	okSteps, branching := 0, false
	parentsUsed := map[*handle]int{}
	if mode == 0 {
		// every capacity state: a parent of length n grown by appends from a lazy source, then 2-3 appends from it in every order
		n := int(c.Index/4) % 34
		p := h.derive("lazy-source", ref.Method(ref.Static("numbers", ref.Int(int64(n))), "map", ref.Clo([]string{"x"}, ref.Bin("+", ref.Id("x"), ref.Int(1)))))
		for k := 0; k < h.r.IntN(4) && p != nil; k++ {
			p = h.derive("append", ref.Method(ref.Id("h0"), "append", ref.Int(int64(50+k))), p)
		}
		if p != nil {
			for k := 0; k < 2+h.r.IntN(2); k++ {
				h.derive("append-branch", ref.Method(ref.Id("h0"), "append", ref.Int(int64(200+k))), p)
				branching = true
			}
		}
		steps = 3
	}
	if mode == 2 {
		// map branching: a parent built by literal / + / accept / put / map, then several derivations from this one parent
		fresh := 0
		freshKey := func() string { fresh++; return fmt.Sprintf("n%d", fresh) }
		lit := func(n int) *ref.Node {
			var keys []string
			var vals []*ref.Node
			for i := 0; i < n; i++ {
				keys = append(keys, freshKey())
				vals = append(vals, ref.Int(int64(h.r.IntN(9))))
			}
			return ref.MapN(keys, vals)
		}
		p := h.derive("literal", lit(1+h.r.IntN(4)))
		for k := 0; k < h.r.IntN(3) && p != nil; k++ {
			switch h.r.IntN(4) {
			case 0:
				p = h.derive("+", ref.Bin("+", ref.Id("h0"), lit(1+h.r.IntN(2))), p)
			case 1:
				p = h.derive("accept", ref.Method(ref.Id("h0"), "accept", ref.Clo([]string{"k", "v"}, ref.Bin("!=", ref.Id("k"), ref.Str("n1")))), p)
			case 2:
				p = h.derive("put", ref.Method(ref.Id("h0"), "put", ref.Str(freshKey()), ref.Int(7)), p)
			default:
				p = h.derive("map", ref.Method(ref.Id("h0"), "map", ref.Clo([]string{"k", "v"}, ref.Bin("+", ref.Id("v"), ref.Int(1)))), p)
			}
		}
		for k := 0; k < 2+h.r.IntN(3) && p != nil && !h.failed; k++ {
			switch h.r.IntN(3) {
			case 0:
				h.derive("+branch", ref.Bin("+", ref.Id("h0"), lit(1+h.r.IntN(2))), p)
			case 1:
				h.derive("put-branch", ref.Method(ref.Id("h0"), "put", ref.Str(freshKey()), ref.Int(int64(50+k))), p)
			default:
				h.derive("+branch-left", ref.Bin("+", lit(1), ref.Id("h0")), p)
			}
			branching = true
			for i := range h.hs {
				if !h.observeMapLight(i) {
					return
				}
			}
		}
		steps = 2
	}
	for s := 0; s < steps && !h.failed; s++ {
		before := len(h.hs)
		if (mode == 3 || mode == 2) && h.r.IntN(3) == 0 {
			h.mapStep()
		} else {
			h.listStep()
		}
		if h.failed {
			return
		}
		if len(h.hs) > before {
			okSteps++
		}
		// observe ALL live handles
		for i := range h.hs {
			if h.hs[i].quiet > 0 {
				h.hs[i].quiet--
				continue
			}
			if !h.observeList(i) {
				return
			}
			if (mode == 3 || mode == 2) && !h.observeMapLight(i) {
				return
			}
		}
	}
	// final look at everything, including the handles kept unevaluated so far
	for i := range h.hs {
		if h.failed {
			return
		}
		if h.hs[i].quiet > 0 {
			h.hs[i].quiet = 0
			if !h.observeList(i) {
				return
			}
		}
	}
	_ = parentsUsed
	// branching: two handles derived by the same kind of op exist (measured on the log)
	if len(h.hs) >= 3 {
		branching = true
	}
	c09hook.mu.Lock()
	ev := c09hook.events
	c09hook.events = 0
	for st := range c09hook.states {
		c.Distinct("append_parent_len_sparecap_states", uint64(st[0])<<16|uint64(st[1]))
	}
	c09hook.mu.Unlock()
	c.Count("hook_append_events", ev)
	if branching && okSteps >= 4 {
		c.NonTrivial(wk.Hash64(h.describeHistory()))
		if c.Index%200 == 0 {
			c.Sample(map[string]any{"history": h.log})
		}
	}
}

// observeMapLight: the persistence-relevant observers of a map handle.
func (h *hist) observeMapLight(i int) bool {
	if _, ok := h.hs[i].ref.(*ref.Map); !ok {
		return true
	}
	h0 := ref.Id("h0")
	return h.observe(i, "map-elements", h0) && h.observe(i, "map-size", ref.Method(h0, "size")) && h.observe(i, "map-list", ref.Method(h0, "list")) && h.observe(i, "map-string", ref.Method(h0, "string"))
}

var _ = fmt.Sprint
