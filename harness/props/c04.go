package props

// C04 — parsing is total: any input yields an AST or an error, never a panic or hang.
// Monitors: M-proc (the driver attributes a dead worker to the last begun
// case) and M-wd (per-case watchdog, isolated re-run with 5x budget); inside
// the worker a recover turns same-goroutine panics into precise reports.

import (
	"fmt"
	"sort"
	"strings"
	"sync"
	"time"

	"github.com/hneemann/parser2"
	"github.com/hneemann/parser2/funcGen"
	"github.com/hneemann/parser2/value"

	"verif/gen"
	"verif/ref"
	"verif/wk"
)

type c04 struct{}

func init() { register("C04", c04{}) }

func (c04) Plan(tier string) wk.Plan {
	n := int64(40000)
	if tier == "thorough" {
		n = 3_000_000
	}
	return wk.Plan{
		Level: "exploration", Cases: n, Chunk: 400, Configs: single("seq", 16), CaseBudget: 30, PerCase: true, HangIsViolation: true,
		Rule:        "case = one byte string (<= 64 KiB) x one configuration {value generator with comments off/on, bool generator, float generator in comfort mode, bare parser with a random operator table and keyword set}. Input classes: uniform random bytes, token soups over the language alphabet, mutations (delete/insert/duplicate/swap/truncate) of generated valid programs, unterminated strings/comments/quoted identifiers, NUL bytes, invalid and truncated UTF-8 at every position class (start, middle, last, next-to-last byte), non-ASCII number/letter runes, deep-nesting/long-chain families scaled to 16/32/64 KiB, chains of 4..2000 nested scopes with distinct names whose innermost body refers to an outer name, and constant expressions whose folding panics on this tree (found at run time from C05's built-in enumeration) placed in 16 positions (top level, let, func body, closures, arguments, branches). Refuting events: the worker process dies, Parse/Generate panics, returns neither or both of (result, error), or does not return within the budget (30 s, and 150 s when re-run alone). Non-trivial = input reaches the parser with >= 3 tokens or belongs to an unterminated/invalid-UTF-8/NUL/deep-nesting class; distinct by (configuration, input).",
		Floor:       2000,
		Assumptions: []string{"the budget of 30 s is > 100x the measured cost of the slowest known-good 64 KiB family on this machine (reported in the evidence as max_case_ms); a watchdog hit is re-run alone with 5x budget before it counts"},
	}
}

var c04alphabet = []string{"let", "func", "if", "then", "else", "switch", "case", "default", "try", "catch", "a", "b", "x1", "true", "false", "pi", "1", "2.5", "1e3", "1e", "1.2.3", "\"s\"", "\"", "'q'", "'", "(", ")", "[", "]", "{", "}", ".", ",", ":", ";", "+", "-", "*", "/", "%", "^", "<", ">", "<=", ">=", "=", "!=", "~", "&", "|", "!", "->", "<<", ">>", "//", "/*", "*/", " ", "\n", "\t", "\r", "²", "⁰", "×", "÷", "–", "•", "ˆ", "½", "①", "₁", "Ⅷ", "é", "日", "\x00", "\xff", "\xc3", "\xe2\x80", "\xf0\x9f", "\\", "\\n", "$", "@", "#", "?", "`", "§"}

// c04FoldCandidates: constant expressions (every documented built-in x boundary arguments, from C05's
// enumeration) whose evaluation ends in a recovered Go panic on this tree. When they are folded at Generate time
// the panic is raised inside the optimizer; it has to stay inside Parse/Generate wherever the expression stands.
var c04foldOnce sync.Once
var c04foldCands []string

func c04FoldCandidates() []string {
	c04foldOnce.Do(func() {
		c05once.Do(c05Build)
		g := value.New()
		seen := map[string]bool{}
		for _, cs := range c05cases {
			if cs.ctx != "top" || cs.expect != "any" || !strings.Contains(cs.class, ".") || strings.Contains(cs.src, "random") ||
				strings.Contains(cs.src, "multiUse") || strings.Contains(cs.src, "9223372036854775807") || strings.Contains(cs.src, "numbers(") || strings.Contains(cs.src, "hpanic") || strings.Contains(cs.src, "boom") {
				continue
			}
			for _, suffix := range []string{"", "(1)", ".size()", "[0]"} {
				src := cs.src + suffix
				if seen[src] {
					continue
				}
				seen[src] = true
				func() {
					defer func() {
						if r := recover(); r != nil {
							c04foldCands = append(c04foldCands, src)
						}
					}()
					f, _, err := g.Generate(src, "a")
					if err == nil {
						_, err = f.Eval(value.Int(1))
					}
					if err != nil && (strings.Contains(err.Error(), "runtime error") || strings.Contains(err.Error(), "panic")) {
						c04foldCands = append(c04foldCands, src)
					}
				}()
			}
		}
		sort.Strings(c04foldCands)
	})
	return c04foldCands
}

func c04Input(c *wk.Case) (string, string) {
	r := c.Rng
	if c.Index%16 == 15 && c.Index%32 == 15 {
		// names resolved through many enclosing scopes: nested closures / lets / funcs with DISTINCT names whose
		// innermost body uses the outermost name, an argument of Generate, a static function or an unknown name
		d := []int{4, 8, 16, 24, 28, 32, 40, 48, 64, 128, 512, 2000}[r.IntN(12)]
		use := []string{"a0", "a", "sqrt(a0)", "unknownName", "a0+a1", "1"}[r.IntN(6)]
		var sb strings.Builder
		switch fam := r.IntN(5); fam {
		case 0:
			for i := 0; i < d; i++ {
				fmt.Fprintf(&sb, "a%d->", i)
			}
			sb.WriteString(use)
		case 1:
			for i := 0; i < d; i++ {
				fmt.Fprintf(&sb, "(a%d->", i)
			}
			sb.WriteString(use + strings.Repeat(")", d))
		case 2:
			sb.WriteString("let a0=1; ")
			for i := 1; i < d; i++ {
				fmt.Fprintf(&sb, "let a%d=a%d+1; ", i, i-1)
			}
			sb.WriteString(use)
		case 3:
			for i := 0; i < d; i++ {
				fmt.Fprintf(&sb, "[a%d->", i)
			}
			sb.WriteString(use + strings.Repeat("]", d))
		default:
			for i := 0; i < d; i++ {
				fmt.Fprintf(&sb, "func f%d(a%d) ", i, i)
			}
			sb.WriteString(use + ";")
			for i := d - 1; i >= 1; i-- {
				fmt.Fprintf(&sb, " f%d(%d);", i, i)
			}
			sb.WriteString(" f0(1)")
		}
		return sb.String(), fmt.Sprintf("scoped-nesting-%d", d)
	}
	if c.Index%32 == 23 {
		// a condition that is a constant but no bool (after folding), in every position: the optimizer cannot
		// decide the branch, the program must still compile (and fail when evaluated) or be rejected with an error
		cond := []string{"1", "0", "\"yes\"", "[1]", "{a:1}", "1+1", "2.5", "sqrt(4)", "[]", "\"\"", "-1", "(1)"}[r.IntN(12)]
		ifx := "if " + cond + " then 2 else 3"
		if r.IntN(3) == 0 {
			ifx = "let c=" + cond + "; a+(if c then 1 else 2)"
		}
		pos := []string{"%s", "[1, %s]", "x->%s", "(x->%s)(1)", "func g(x) %s; g(1)", "try %s catch 0", "{k:%s}", "max(1, %s)", "1+(%s)", "if a then (%s) else 0", "[1,2].map(x->%s)", "let q=(%s); q"}[r.IntN(12)]
		if strings.HasPrefix(ifx, "let") {
			pos = []string{"%s", "func g(x) %s; g(1)", "x->%s", "[1, %s]", "try %s catch 0"}[r.IntN(5)]
		}
		return fmt.Sprintf(pos, ifx), "constant-non-bool-condition"
	}
	if c.Index%32 == 7 {
		// calls whose callee is an expression (not a name) that may itself fail to compile: the error path of the
		// code generator builds its message from the registered functions
		callee := []string{"[1]", "a[1]", "{b:1}", "(a+1)", "1", "\"s\"", "a.b", "f(1)", "[f(1,2)]", "[sin(1,2)]", "[sqr(1,2)]", "-a", "(x->x)", "[x->x][0]", "{f:x->x}.f", "a(1)", "[unknownName]",
			"[1,", "sqr", "[sqr]", "(if a then b else c)", "[a&b]", "true", "[true]", "(a b)", "2a", "[!a]"}[r.IntN(27)]
		args := []string{"(2)", "()", "(1,2)", "(2)(3)", "(unknownArg)", "(let q=1; q)", "(f(,))", "(a)", "(true)", "(2)+1", "(sqr(1,2))"}[r.IntN(11)]
		pre := []string{"", "1+", "let q=", "a*", "!", "if a then ", "func g(x) "}[r.IntN(7)]
		post := ""
		switch pre {
		case "let q=":
			post = "; q"
		case "if a then ":
			post = " else b"
		case "func g(x) ":
			post = "; g(1)"
		}
		return pre + callee + args + post, "callee-expression"
	}
	if c.Index%32 == 31 {
		cands := c04FoldCandidates()
		c.Count("fold_time_panic_candidates_on_this_tree", 0)
		if len(cands) > 0 {
			e := cands[r.IntN(len(cands))]
			pos := []string{"%s", "let q=%s; 1", "func f(x) [x, %s]; f(1)", "func f(x) x+%s; f(1)", "(x->[x, %s])(1)", "func f(x) (y->[x, y, %s]); f(1)(2)", "[1, %s]", "{k:%s}", "if true then %s else 1",
				"try %s catch 1", "max(1, %s)", "func f(x) let q=%s; x; f(1)", "func f(x) if x>0 then %s else 0; f(1)", "func f(x) try %s catch 0; f(1)", "[1,2].map(x->%s)", "func f(x) [1,2].map(y->%s); f(1)"}[r.IntN(16)]
			c.Count("fold_time_panic_cases", 1)
			return fmt.Sprintf(pos, e), "fold-time-panic"
		}
	}
	switch k := c.Index % 16; {
	case k < 3: // random bytes
		n := r.IntN(64)
		if r.IntN(20) == 0 {
			n = r.IntN(65536)
		}
		b := make([]byte, n)
		for i := range b {
			b[i] = byte(r.IntN(256))
		}
		return string(b), "random-bytes"
	case k < 7: // token soup
		n := 1 + r.IntN(30)
		if r.IntN(30) == 0 {
			n = 2000 + r.IntN(8000)
		}
		var sb strings.Builder
		for i := 0; i < n && sb.Len() < 65000; i++ {
			sb.WriteString(c04alphabet[r.IntN(len(c04alphabet))])
			if r.IntN(3) == 0 {
				sb.WriteByte(' ')
			}
		}
		return sb.String(), "token-soup"
	case k < 12: // mutation of a valid program
		p := gen.GenProgram(r, gen.Dials{MaxDepth: 4, Budget: 25, VarLeaf: 0.3, Bind: 0.3}, 0)
		src, ok := safeSource(p.Root, ref.PrintOpts{})
		if !ok || src == "" {
			src = "1+2"
		}
		b := []byte(src)
		for m := 0; m < 1+r.IntN(3) && len(b) > 0; m++ {
			i := r.IntN(len(b))
			switch r.IntN(7) {
			case 0:
				b = append(b[:i], b[i+1:]...)
			case 1:
				ins := c04alphabet[r.IntN(len(c04alphabet))]
				b = append(b[:i], append([]byte(ins), b[i:]...)...)
			case 2:
				j := i + r.IntN(len(b)-i)
				b = append(b[:j], append(append([]byte{}, b[i:j]...), b[j:]...)...)
			case 3:
				j := r.IntN(len(b))
				b[i], b[j] = b[j], b[i]
			case 4:
				b = b[:i]
			case 5:
				b[i] = byte(r.IntN(256))
			default:
				// invalid / truncated UTF-8 near the end
				tail := []string{"\xff", "\xc3", "\xe2\x80", "\xe2", "\xf0\x9f\x98", "\x80"}[r.IntN(6)]
				switch r.IntN(3) {
				case 0:
					b = append(b, tail...)
				case 1:
					b = append(b[:len(b)-1], append([]byte(tail), b[len(b)-1])...)
				default:
					b = append([]byte(tail), b...)
				}
			}
		}
		if len(b) > 65536 {
			b = b[:65536]
		}
		return string(b), "mutation"
	case k < 14: // unterminated things
		pre := []string{"", "1+", "a.b(", "[1,", "{a:", "let x=", "x->"}[r.IntN(7)]
		open := []string{"\"abc", "\"abc\\", "\"a\\\"", "'ident", "/* comment", "/* a * / b", "// line", "/*/", "\"\n\"", "'a\n'", "\"abc\xff", "/*\xff", "'\xe2\x80"}[r.IntN(13)]
		return pre + open, "unterminated"
	default: // deep nesting / long chains
		size := []int{16, 32, 64}[r.IntN(3)] * 1024
		fam := r.IntN(18)
		unit, close, tail := "", "", ""
		switch fam {
		case 0:
			unit, close, tail = "(", ")", "1"
		case 1:
			unit, close, tail = "[", "]", "1"
		case 2:
			unit, close, tail = "{a:", "}", "1"
		case 3:
			unit, tail = "a->", "1"
		case 4:
			unit, tail = "if true then ", "1"
			close = " else 2"
		case 5:
			unit, tail = "-", "1"
		case 6:
			unit, tail = "1+", "1"
		case 7:
			unit, tail = "a.b.", "c"
		case 8:
			unit, tail = "f(", "1"
			close = ")"
		case 9:
			unit, tail = "x", "" // long identifier
		case 10:
			unit, tail = "9", "" // long number
		case 11:
			return "\"" + strings.Repeat("s", size-2) + "\"", fmt.Sprintf("deep:long-string-%dk", size/1024)
		case 12:
			unit, tail = "(", "1" // unbalanced
		case 13:
			unit, tail = "try ", "1"
			close = " catch 2"
		case 14:
			unit, tail = "a+", "a" // chains over arguments: nothing to fold, every level reaches the code generator
		case 15:
			unit, tail = "a*b-", "a"
		case 16:
			unit, tail = "a<", "b"
		case 17:
			unit, tail = "a.b+", "a"
		}
		if fam >= 14 && r.IntN(2) == 0 {
			size = []int{64, 128, 256, 1024}[r.IntN(4)] // a few dozen operators are enough for exponential work
		}
		n := (size - len(tail)) / (len(unit) + len(close))
		if fam == 12 {
			n = size - 1
		}
		s := strings.Repeat(unit, n) + tail
		if fam != 12 {
			s += strings.Repeat(close, n)
		}
		return s, fmt.Sprintf("deep:%s-%dk", strings.TrimSpace(unit), size/1024)
	}
}

var c04gens struct {
	val, valC *value.FunctionGenerator
	b         *funcGen.FunctionGenerator[bool]
	f         *funcGen.FunctionGenerator[float64]
}

func (c04) Run(c *wk.Case) {
	src, class := c04Input(c)
	cfg := int(c.Index/16) % 5
	if c04gens.val == nil {
		c04gens.val = value.New()
		c04gens.valC = value.New()
		c04gens.valC.GetParser().AllowComments()
		c04gens.b = newBoolGen(15, true).g
		c04gens.f = newFloatGen(3, true).g
	}
	var res any
	var err error
	var pan any
	t0 := time.Now()
	func() {
		defer func() {
			if r := recover(); r != nil {
				pan = r
			}
		}()
		switch cfg {
		case 0:
			var f funcGen.Func[value.Value]
			f, _, err = c04gens.val.Generate(src, "a", "b")
			if f != nil {
				res = f
			}
		case 1:
			var f funcGen.Func[value.Value]
			f, _, err = c04gens.valC.Generate(src, "a", "b")
			if f != nil {
				res = f
			}
		case 2:
			var f funcGen.Func[bool]
			f, _, err = c04gens.b.Generate(src, "a", "b")
			if f != nil {
				res = f
			}
		case 3:
			var f funcGen.Func[float64]
			f, _, err = c04gens.f.Generate(src, "a", "b")
			if f != nil {
				res = f
			}
		default:
			t := genTable(c.Rng)
			p := t.parser()
			if c.Rng.IntN(2) == 0 {
				p.AllowComments()
			}
			p.Comfort(c.Rng.IntN(2) == 0)
			var ids parser2.Identifiers[float64]
			ids = ids.Add("a").Add("b")
			var ast parser2.AST
			ast, err = p.Parse(src, ids)
			if ast != nil {
				res = ast
			}
		}
	}()
	ms := time.Since(t0).Milliseconds()
	c.Max("case_ms", ms)
	if strings.HasPrefix(class, "deep:") && strings.HasSuffix(class, "64k") {
		c.Max("ms_64k_"+class, ms)
	}
	if strings.HasPrefix(class, "deep:") && strings.HasSuffix(class, "16k") {
		c.Max("ms_16k_"+class, ms)
	}
	short := truncate(fmt.Sprintf("%q", src), 300)
	if pan != nil {
		c.Violation("parse-panics", fmt.Sprintf("config %d, class %s: panic %v on input %s (len %d)", cfg, class, pan, short, len(src)), map[string]any{"config": cfg, "class": class, "input": src})
		return
	}
	if (res == nil) == (err == nil) {
		c.Violation("neither-or-both-result-and-error", fmt.Sprintf("config %d, class %s: result=%v err=%v on input %s", cfg, class, res != nil, err, short), map[string]any{"config": cfg, "class": class, "input": src})
		return
	}
	c.Count("class_"+strings.SplitN(class, "-", 2)[0], 1)
	if err == nil {
		c.Count("accepted", 1)
	} else {
		c.Count("rejected", 1)
	}
	if len(src) >= 5 || class == "unterminated" {
		c.NonTrivial(wk.Hash64(fmt.Sprint(cfg), src))
		if c.Index%1500 == 0 {
			c.Sample(map[string]any{"config": cfg, "class": class, "input": short, "accepted": err == nil})
		}
	}
}
