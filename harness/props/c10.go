package props

// C10 — a generated function is a pure function of its arguments across evaluations.
// Monitor: M-ref per evaluation of a hostile evaluation history on ONE generated
// function: other functions of the same generator, failing evaluations, dropped
// and half-consumed lazy results, and fresh Generate calls are interleaved.

import (
	"fmt"

	"github.com/hneemann/parser2/funcGen"
	"github.com/hneemann/parser2/value"

	"verif/bridge"
	"verif/gen"
	"verif/ref"
	"verif/wk"
)

type c10 struct{}

func init() { register("C10", c10{}) }

func (c10) Plan(tier string) wk.Plan {
	n := int64(30000)
	if tier == "thorough" {
		n = 1_500_000
	}
	return wk.Plan{
		Level: "exploration", Cases: n, Chunk: 100, Configs: single("seq", 16), CaseBudget: 30,
		Rule:          "case = one generated program P (as C01, medium constant share so that folded lazy lists and constant closures occur) + a history of 40 steps on the same generator: evaluate P on a tuple from a pool of 5 (same real argument objects reused), evaluate and drop the result unforced, evaluate and consume only k elements of a lazy result, evaluate P with a failing tuple, evaluate another function Q of the same generator, call Generate for a fresh program. Every fully consumed evaluation of P must equal the reference outcome for its own arguments (= the first outcome with these arguments). Non-trivial = history contains at least 3 distinct tuples, a failing or partially consumed evaluation, and P is not constant; distinct by source.",
		Floor:         100,
		FloorCounters: map[string]int64{"partial_consumptions": 50, "interleaved_generates": 50},
		Assumptions:   []string{"reference interpreter as in C01; one CPU (sequential stages)"},
	}
}

var c10dials = gen.Dials{MaxDepth: 5, Budget: 45, VarLeaf: 0.5, Bind: 0.35, Fault: 0.008, Collide: 0.02}

func (c10) Run(c *wk.Case) {
	vl := getPlainVlang()
	g := vl.opt
	if c.Index%3 == 0 {
		g = vl.noopt
	}
	nargs := 1 + c.Rng.IntN(3)
	p := gen.GenProgram(c.Rng, c10dials, nargs)
	// bias: results that are lazy lists
	if c.Rng.IntN(3) == 0 {
		pg := gen.NewPG(c.Rng, c10dials)
		for i, n := range p.ArgNames {
			pg.Declare(n, p.ArgTypes[i])
		}
		p.Root = pg.Gen(gen.TList(gen.TInt), 0, true)
	}
	if c.Index%4 == 1 {
		p = c10ConstProgram(c.Rng, true)
		nargs = len(p.ArgNames)
		c.Count("constant_container_programs", 1)
	}
	src, ok := safeSource(p.Root, ref.PrintOpts{})
	if !ok {
		c.Inconclusive("generator-bug", "let in a forbidden position")
		return
	}
	c.Logf("P: %s", src)
	f, err, pan := generate(g, src, p.ArgNames)
	if pan != nil {
		c.Violation("generate-panic", fmt.Sprintf("Generate panics on %q: %v", src, pan), map[string]any{"src": src})
		return
	}
	if err != nil {
		c.Count("generate_errors", 1)
		return
	}
	// second function of the same generator
	q := gen.GenProgram(c.Rng, c10dials, nargs)
	qsrc, ok := safeSource(q.Root, ref.PrintOpts{})
	var fq funcGen.Func[value.Value]
	if ok {
		fq, _, _ = generate(g, qsrc, q.ArgNames)
	}
	in := ref.NewInterp()
	type pooled struct {
		refArgs  []ref.Value
		realArgs []value.Value
		wv       ref.Value
		we       *ref.Err
		rae      bool
		used     int
	}
	var pool []*pooled
	for i := 0; i < 5; i++ {
		tu := genArgs(c.Rng, p)
		ra, _ := realArgs(c.Rng, tu)
		wv, we, rae := refEval(in, p.Root, p.ArgNames, tu)
		pool = append(pool, &pooled{tu, ra, wv, we, rae, 0})
	}
	// a failing tuple: wrong number / type of arguments is not possible through Eval's signature, so use values of other types
	bad := make([]value.Value, nargs)
	for i := range bad {
		bad[i] = value.Closure(funcGen.Function[value.Value]{Func: func(st funcGen.Stack[value.Value], cs []value.Value) (value.Value, error) {
			return nil, fmt.Errorf("x")
		}, Args: 7})
	}
	st := funcGen.NewEmptyStack[value.Value]()
	distinctTuples, partial, failing, gens, delayed := 0, 0, 0, 0, 0
	type pend struct {
		pe  *pooled
		v   value.Value
		err error
		at  int
	}
	var pending []pend
	forcePending := func(step int) bool {
		if len(pending) == 0 {
			return true
		}
		i := c.Rng.IntN(len(pending))
		pd := pending[i]
		pending = append(pending[:i], pending[i+1:]...)
		got := bridge.Force(pd.v, pd.err)
		got.FloatTol = regroupTol(g == vl.opt, src)
		delayed++
		if v, why := bridge.CompareOutcome(pd.pe.wv, pd.pe.we, pd.pe.rae, got); v == bridge.Disagree {
			c.Violation("evaluation-depends-on-history", fmt.Sprintf("%q: result of the evaluation at step %d with %v, consumed at step %d after other evaluations: %s", src, pd.at, describeArgs(pd.pe.refArgs), step, why),
				map[string]any{"src": src, "args": describeArgs(pd.pe.refArgs), "evaluated_at_step": pd.at, "consumed_at_step": step, "why": why})
			return false
		}
		return true
	}
	for step := 0; step < 40; step++ {
		switch k := c.Rng.IntN(10); {
		case k < 4:
			pe := pool[c.Rng.IntN(len(pool))]
			if pe.we != nil && (pe.we.Budget || pe.we.Unspec) {
				continue
			}
			if pe.used == 0 {
				distinctTuples++
			}
			pe.used++
			got := evalReal(f, pe.realArgs)
			got.FloatTol = regroupTol(g == vl.opt, src)
			v, why := bridge.CompareOutcome(pe.wv, pe.we, pe.rae, got)
			c.Logf("step %d: eval tuple %v -> %s err=%v", step, describeArgs(pe.refArgs), bridge.Describe(got.Val), got.Err)
			if v == bridge.Disagree {
				c.Violation("evaluation-depends-on-history", fmt.Sprintf("%q: evaluation %d of the history (step %d) with %v: %s", src, pe.used, step, describeArgs(pe.refArgs), why),
					map[string]any{"src": src, "args": describeArgs(pe.refArgs), "step": step, "why": why, "nth_use": pe.used})
				return
			}
		case k < 5 && step%2 == 0:
			// evaluate now, consume the (possibly lazy) result later, after other evaluations
			pe := pool[c.Rng.IntN(len(pool))]
			if pe.we != nil && (pe.we.Budget || pe.we.Unspec) {
				continue
			}
			func() {
				defer func() { recover() }()
				v, err := f.Eval(pe.realArgs...)
				pending = append(pending, pend{pe, v, err, step})
			}()
		case k < 5:
			if !forcePending(step) {
				return
			}
		case k < 6:
			// evaluate, then drop or half consume
			pe := pool[c.Rng.IntN(len(pool))]
			if pe.we != nil && pe.we.Budget {
				continue
			}
			func() {
				defer func() { recover() }()
				v, err := f.Eval(pe.realArgs...)
				if err != nil {
					return
				}
				if l, ok := v.(*value.List); ok && c.Rng.IntN(3) > 0 {
					k := c.Rng.IntN(3)
					n := 0
					for _, e := range l.Iterate(st) {
						if e != nil || n >= k {
							break
						}
						n++
					}
					partial++
				}
			}()
		case k < 7:
			failing++
			func() {
				defer func() { recover() }()
				f.Eval(bad...)
			}()
		case k < 9:
			if fq != nil {
				tu := genArgs(c.Rng, q)
				ra, _ := realArgs(c.Rng, tu)
				wv, we, rae := refEval(in, q.Root, q.ArgNames, tu)
				if we != nil && (we.Budget || we.Unspec) {
					continue
				}
				got := evalReal(fq, ra)
				got.FloatTol = regroupTol(g == vl.opt, qsrc)
				if v, why := bridge.CompareOutcome(wv, we, rae, got); v == bridge.Disagree {
					c.Violation("evaluation-depends-on-history", fmt.Sprintf("second function %q (interleaved with %q) with %v: %s", qsrc, src, describeArgs(tu), why),
						map[string]any{"src": qsrc, "other": src, "args": describeArgs(tu), "why": why})
					return
				}
			}
		default:
			r := gen.GenProgram(c.Rng, c10dials, 1)
			if rs, ok := safeSource(r.Root, ref.PrintOpts{}); ok {
				generate(g, rs, r.ArgNames)
				gens++
			}
		}
	}
	for len(pending) > 0 {
		if !forcePending(40) {
			return
		}
	}
	c.Count("delayed_consumptions", int64(delayed))
	c.Count("partial_consumptions", int64(partial))
	c.Count("failing_evaluations", int64(failing))
	c.Count("interleaved_generates", int64(gens))
	if distinctTuples >= 3 && (partial > 0 || failing > 0) && !isConstAST(g, src, p.ArgNames) {
		c.NonTrivial(wk.Hash64(src))
		c.Sample(map[string]any{"program": src, "history_steps": 40, "distinct_tuples": distinctTuples, "partial": partial, "failing": failing, "generates": gens})
	}
}

// c10ConstProgram: a constant container (folded by the optimizer into one object shared by all evaluations of
// the function, or bound by a let) is used by two operations that depend on the arguments, and its own string
// form is part of the result: an operation that works in place on the shared object shows in a LATER evaluation.
func c10ConstProgram(r interface{ IntN(int) int }, hashMaps bool) *gen.Program {
	I := func(v int64) *ref.Node { return ref.Int(v) }
	id := ref.Id
	x, n, s := id("x"), id("n"), id("s")
	clo := func(body *ref.Node, ps ...string) *ref.Node { return ref.Clo(ps, body) }
	listConsts := []func() *ref.Node{
		func() *ref.Node { return ref.ListN(I(1), I(2), I(3)) },
		func() *ref.Node { return ref.ListN(I(3), I(1), I(2), I(2)) },
		func() *ref.Node { return ref.ListN(I(5), I(4), I(3), I(2), I(1), I(0)) },
		func() *ref.Node {
			return ref.Method(ref.Static("numbers", I(5)), "map", clo(ref.Bin("-", I(7), ref.Bin("*", id("v"), I(2))), "v"))
		},
		func() *ref.Node { return ref.Method(ref.ListN(I(2), I(1)), "append", I(3)) },
		func() *ref.Node { return ref.Bin("+", ref.ListN(I(1), I(2)), ref.ListN(I(3))) },
	}
	mapConsts := []func() *ref.Node{
		func() *ref.Node { return ref.MapN([]string{"a", "b"}, []*ref.Node{I(1), I(2)}) },
		func() *ref.Node {
			return ref.Bin("+", ref.MapN([]string{"a", "b"}, []*ref.Node{I(1), I(2)}), ref.MapN([]string{"c"}, []*ref.Node{I(3)}))
		},
		func() *ref.Node {
			return ref.Method(ref.MapN([]string{"a", "b", "c"}, []*ref.Node{I(1), I(2), I(3)}), "accept", clo(ref.Bin("!=", id("k"), ref.Str("b")), "k", "v"))
		},
		func() *ref.Node { return ref.Method(ref.MapN([]string{"a", "b"}, []*ref.Node{I(1), I(2)}), "eval") },
		func() *ref.Node {
			return ref.Method(ref.MapN([]string{"a"}, []*ref.Node{I(1)}), "put", ref.Str("z"), I(9))
		},
	}
	c := id("c")
	listOps := []func() *ref.Node{
		func() *ref.Node { return ref.Bin("~", c, x) },
		func() *ref.Node { return ref.Bin("~", x, c) },
		func() *ref.Node { return ref.Bin("~", n, c) },
		func() *ref.Node { return ref.Bin("+", c, x) },
		func() *ref.Node { return ref.Bin("+", x, c) },
		func() *ref.Node { return ref.Bin("=", c, x) },
		func() *ref.Node { return ref.Method(c, "append", n) },
		func() *ref.Node { return ref.Method(c, "set", ref.Bin("%", ref.Static("abs", n), I(3)), n) },
		func() *ref.Node { return ref.Method(c, "reverse") },
		func() *ref.Node { return ref.Method(c, "order", clo(ref.Bin("*", id("v"), n), "v")) },
		func() *ref.Node { return ref.Method(c, "orderRev", clo(ref.Bin("*", id("v"), n), "v")) },
		func() *ref.Node {
			return ref.Method(c, "orderLess", clo(ref.Bin("<", ref.Bin("*", id("p"), n), ref.Bin("*", id("q"), n)), "p", "q"))
		},
		func() *ref.Node { return ref.Method(c, "map", clo(ref.Bin("+", id("v"), n), "v")) },
		func() *ref.Node { return ref.Method(c, "accept", clo(ref.Bin("!=", id("v"), n), "v")) },
		func() *ref.Node { return ref.Method(c, "top", n) },
		func() *ref.Node { return ref.Method(c, "skip", n) },
		func() *ref.Node { return ref.Method(c, "replaceList", clo(ref.Method(id("l"), "append", n), "l")) },
		func() *ref.Node { return ref.Method(c, "cross", x, clo(ref.Bin("*", id("p"), id("q")), "p", "q")) },
		func() *ref.Node { return ref.Method(c, "merge", x, clo(ref.Bin("<", id("p"), id("q")), "p", "q")) },
		func() *ref.Node {
			return ref.Method(c, "combine", clo(ref.Bin("+", ref.Bin("+", id("p"), id("q")), n), "p", "q"))
		},
		func() *ref.Node { return ref.Method(c, "combineN", I(2), clo(id("w"), "w")) },
		func() *ref.Node { return ref.Method(c, "indexWhere", clo(ref.Bin("=", id("v"), n), "v")) },
		func() *ref.Node {
			return ref.Method(ref.Method(c, "number", clo(ref.Bin("+", id("i"), id("v")), "i", "v")), "sum")
		},
		func() *ref.Node { return ref.Method(c, "mapReduce", n, clo(ref.Bin("+", id("a"), id("v")), "a", "v")) },
		func() *ref.Node { return ref.Index(c, ref.Bin("%", ref.Static("abs", n), I(3))) },
		func() *ref.Node { return ref.Method(c, "minMax", clo(ref.Bin("*", id("v"), n), "v")) },
		func() *ref.Node { return ref.Method(c, "movingWindow", clo(ref.Bin("+", id("v"), I(0)), "v")) },
		// views into the constant (windows, cuts) that are appended to
		func() *ref.Node {
			return ref.Method(ref.Method(ref.Index(ref.Method(c, "movingWindow", clo(id("v"), "v")), I(0)), "append", n), "size")
		},
		func() *ref.Node {
			return ref.Method(ref.Index(ref.Method(c, "movingWindow", clo(id("v"), "v")), I(1)), "append", n)
		},
		func() *ref.Node { return ref.Method(ref.Method(c, "top", I(2)), "append", n) },
		func() *ref.Node { return ref.Method(ref.Method(ref.Method(c, "eval"), "top", I(1)), "append", n) },
		func() *ref.Node {
			return ref.Method(ref.Index(ref.Method(c, "combineN", I(2), clo(id("w"), "w")), I(0)), "append", n)
		},
		func() *ref.Node { return ref.Method(c, "top", ref.Un("-", ref.Static("abs", n))) },
	}
	mapOps := []func() *ref.Node{
		func() *ref.Node { return ref.Method(c, "put", s, n) },
		func() *ref.Node { return ref.Method(c, "put", ref.Str("q"), n) },
		func() *ref.Node { return ref.Bin("+", c, ref.MapN([]string{"q"}, []*ref.Node{n})) },
		func() *ref.Node { return ref.Bin("+", ref.MapN([]string{"q"}, []*ref.Node{n}), c) },
		func() *ref.Node { return ref.Method(c, "replace", clo(ref.MapN([]string{"a"}, []*ref.Node{n}), "m")) },
		func() *ref.Node { return ref.Method(c, "map", clo(ref.Bin("+", id("v"), n), "k", "v")) },
		func() *ref.Node { return ref.Method(c, "accept", clo(ref.Bin("!=", id("v"), n), "k", "v")) },
		func() *ref.Node { return ref.Method(c, "get", s) },
		func() *ref.Node { return ref.Method(c, "isAvail", s) },
		func() *ref.Node { return ref.Bin("~", s, c) },
		func() *ref.Node { return ref.Method(c, "list") },
		func() *ref.Node { return ref.Method(c, "size") },
		func() *ref.Node { return ref.Bin("=", c, ref.MapN([]string{"a", "b"}, []*ref.Node{n, I(2)})) },
	}
	if !hashMaps {
		// an evaluated map iterates in the order of a Go map: its string form differs from call to call
		mapConsts = append(mapConsts[:3], mapConsts[4:]...)
	}
	var cst *ref.Node
	var ops []func() *ref.Node
	if r.IntN(3) == 0 {
		cst, ops = mapConsts[r.IntN(len(mapConsts))](), mapOps
	} else {
		cst, ops = listConsts[r.IntN(len(listConsts))](), listOps
	}
	guard := func(e *ref.Node) *ref.Node { return ref.Try(e, ref.Str("failed")) }
	items := []*ref.Node{guard(ops[r.IntN(len(ops))]()), ref.Method(c, "string"), guard(ops[r.IntN(len(ops))]()), ref.Method(c, "string")}
	var root *ref.Node
	if r.IntN(2) == 0 {
		root = ref.Let("c", cst, ref.ListN(items...))
	} else {
		// without the let: the literal itself is the (folded) constant
		sub := func(n *ref.Node) {
			n.Walk(func(y *ref.Node) {
				for _, ch := range []**ref.Node{&y.X, &y.Y, &y.Z} {
					if *ch != nil && (*ch).K == ref.KIdent && (*ch).Name == "c" {
						*ch = cst.Clone()
					}
				}
				for i := range y.Args {
					if y.Args[i] != nil && y.Args[i].K == ref.KIdent && y.Args[i].Name == "c" {
						y.Args[i] = cst.Clone()
					}
				}
			})
		}
		root = ref.ListN(items[0], items[2])
		sub(root)
	}
	return &gen.Program{Root: root, ArgNames: []string{"x", "n", "s"}, ArgTypes: []*gen.Ty{gen.TList(gen.TInt), gen.TInt, gen.TStr}}
}
