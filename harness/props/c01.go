package props

// C01 — compiled evaluation equals the lexically scoped reference semantics.
// Monitors: M-ref (reference interpreter vs Func.Eval, optimizer on and off)
// and M-slot (let-bind hook: compile-time index vs run-time slot).

import (
	"fmt"
	"math/rand/v2"
	"sort"

	"github.com/hneemann/parser2/value"

	"verif/bridge"
	"verif/gen"
	"verif/mon"
	"verif/ref"
	"verif/wk"
)

type c01 struct{}

func init() { register("C01", c01{}) }

func (c01) Plan(tier string) wk.Plan {
	n := int64(200000)
	if tier == "thorough" {
		n = 10_000_000
	}
	return wk.Plan{
		Level: "exploration", Cases: n, Chunk: 500, Configs: single("seq", 16), CaseBudget: 8,
		Rule:          "case = one generated value-language program (G-prog: type-directed, binding constructs let/func/closure/if/switch/try/curry/map-field-closure biased into 1st..3rd call, method, list and map argument positions; shadowing across function bodies) x 4 argument tuples x {default optimizer, SetOptimizer(nil)}; oracle = reference interpreter (lists by element sequence, maps by key/value set, numbers by kind and value, ok-vs-error, thrown text) + let-bind hook (compile index = run-time slot). A fixed regression corpus runs first. Non-trivial = the optimised AST is not a single constant and the program contains a binding construct; distinct by source text.",
		Floor:         200,
		FloorCounters: map[string]int64{"hook_letbind_events": 100},
		Assumptions: []string{
			"the reference interpreter is an independent reading of the documentation; outcomes the documentation leaves open (error-message text, order of groupBy/unique/evaluated maps, read-ahead errors, float-to-int overflow) are counted as unspecified and not compared",
			"workers run under taskset with one CPU, so list stages take the sequential path; schedules are C06's subject",
		},
	}
}

// corpus: fixed regression programs (name, source tree, argument names, argument tuples)
type corpusProg struct {
	name  string
	prog  *ref.Node
	args  []string
	tuple [][]ref.Value
}

func c01Corpus() []corpusProg {
	a := ref.Id("a")
	i := func(v int64) ref.Value { return v }
	tup := func(vs ...int64) [][]ref.Value {
		var out [][]ref.Value
		for _, v := range vs {
			out = append(out, []ref.Value{i(v)})
		}
		return out
	}
	letx := func(val, in *ref.Node) *ref.Node { return ref.Let("x", val, in) }
	return []corpusProg{
		{"let-in-2nd-static-arg", ref.Static("max", a, letx(ref.Bin("+", a, ref.Int(1)), ref.Id("x"))), []string{"a"}, tup(1, 5, -3)},
		{"let-in-3rd-static-arg", ref.Static("max", ref.Int(0), a, letx(ref.Bin("*", a, ref.Int(2)), ref.Bin("+", ref.Id("x"), ref.Int(1)))), []string{"a"}, tup(1, 7)},
		{"let-in-method-arg", ref.Method(ref.ListN(ref.Int(1), ref.Int(2)), "append", letx(ref.Bin("+", a, ref.Int(1)), ref.Id("x"))), []string{"a"}, tup(1, 9)},
		{"let-in-2nd-closure-arg", ref.Call(ref.Clo([]string{"p", "q"}, ref.Bin("-", ref.Id("p"), ref.Id("q"))), a, letx(ref.Bin("+", a, ref.Int(10)), ref.Id("x"))), []string{"a"}, tup(1, 2)},
		{"let-in-mapfield-closure-arg", ref.Method(ref.MapN([]string{"f"}, []*ref.Node{ref.Clo([]string{"p", "q"}, ref.Bin("-", ref.Id("p"), ref.Id("q")))}), "f", a, letx(ref.Bin("+", a, ref.Int(10)), ref.Id("x"))), []string{"a"}, tup(1, 2)},
		{"nested-let-in-args", ref.Static("min", a, ref.Static("max", a, letx(ref.Bin("+", a, ref.Int(3)), ref.Let("y", ref.Bin("*", ref.Id("x"), ref.Int(2)), ref.Bin("+", ref.Id("x"), ref.Id("y")))))), []string{"a"}, tup(1, 4)},
		{"closure-capturing-let-in-arg", ref.Static("max", a, letx(ref.Bin("+", a, ref.Int(1)), ref.Call(ref.Clo([]string{"p"}, ref.Bin("+", ref.Id("p"), ref.Id("x"))), ref.Int(100)))), []string{"a"}, tup(1, 4)},
		{"recursion", ref.Func("f", []string{"n"}, ref.If(ref.Bin("<=", ref.Id("n"), ref.Int(0)), ref.Int(0), ref.Bin("+", ref.Call(ref.Id("f"), ref.Bin("-", ref.Id("n"), ref.Int(1))), ref.Id("n"))), ref.Call(ref.Id("f"), a)), []string{"a"}, tup(0, 1, 10)},
		// the nearest binding wins over a static function of the same name; a field holding a closure over a method
		{"let-named-like-static-function", ref.Let("sqr", ref.Clo([]string{"x"}, ref.Bin("+", ref.Id("x"), a)), ref.Static("sqr", ref.Int(3))), []string{"a"}, tup(4, 100)},
		{"const-let-named-like-static-function", ref.Let("sqr", ref.Clo([]string{"x"}, ref.Bin("+", ref.Id("x"), ref.Int(100))), ref.Bin("+", ref.Static("sqr", ref.Int(3)), a)), []string{"a"}, tup(4)},
		{"func-named-like-static-function", ref.Func("abs", []string{"x"}, ref.Bin("+", ref.Id("x"), a), ref.Static("abs", ref.Int(-5))), []string{"a"}, tup(4, 1)},
		{"const-func-named-like-static-function", ref.Func("abs", []string{"x"}, ref.Bin("+", ref.Id("x"), ref.Int(1)), ref.Bin("+", ref.Static("abs", ref.Int(-5)), a)), []string{"a"}, tup(4)},
		{"param-named-like-static-function", ref.Call(ref.Clo([]string{"sqrt"}, ref.Static("sqrt", ref.Int(4))), ref.Clo([]string{"v"}, ref.Bin("*", ref.Id("v"), a))), []string{"a"}, tup(3)},
		{"recursive-func-named-like-static-function", ref.Func("sqr", []string{"v"}, ref.If(ref.Bin(">", ref.Id("v"), ref.Int(100)), ref.Id("v"), ref.Static("sqr", ref.Bin("+", ref.Id("v"), ref.Int(50)))), ref.Bin("+", ref.Static("sqr", ref.Int(3)), a)), []string{"a"}, tup(0)},
		{"field-closure-named-like-method", ref.Bin("+", ref.Method(ref.MapN([]string{"get", "a"}, []*ref.Node{ref.Clo([]string{"k"}, ref.Int(1)), ref.Int(2)}), "get", ref.Str("a")), a), []string{"a"}, tup(0)},
		{"field-closure-named-like-method-nonconst", ref.Method(ref.MapN([]string{"get", "a"}, []*ref.Node{ref.Clo([]string{"k"}, a), ref.Int(2)}), "get", ref.Str("a")), []string{"a"}, tup(7)},
		// left-to-right evaluation of & and |: an operand between two constants is evaluated (and fails) as written,
		// whatever the optimizer may regroup or fold around it
		{"bool-chain-constants-around-nonbool-and", ref.Bin("&", ref.Bin("&", ref.Bool(true), a), ref.Bool(false)), []string{"a"}, tup(5, 0)},
		{"bool-chain-constants-around-nonbool-or", ref.Bin("|", ref.Bin("|", ref.Bool(false), a), ref.Bool(true)), []string{"a"}, tup(5, 1)},
		{"bool-chain-constants-around-failing-index", ref.Try(ref.Bin("&", ref.Bin("&", ref.Bool(true), ref.Bin("=", ref.Index(ref.ListN(ref.Int(1)), a), ref.Int(1))), ref.Bool(false)), ref.Str("caught")), []string{"a"}, tup(9, 0)},
		{"bool-chain-const-lets-around-nonbool", ref.Let("on", ref.Bin("<", ref.Int(1), ref.Int(2)), ref.Let("off", ref.Bin("<", ref.Int(2), ref.Int(1)), ref.Bin("&", ref.Bin("&", ref.Id("on"), a), ref.Id("off")))), []string{"a"}, tup(5)},
		{"bool-chain-constants-around-comparison", ref.Bin("|", ref.Bin("|", ref.Bool(false), ref.Bin(">", a, ref.Int(3))), ref.Bool(false)), []string{"a"}, tup(5, 1)},
		{"curry", ref.Call(ref.Call(ref.Clo([]string{"p"}, ref.Clo([]string{"q"}, ref.Bin("-", ref.Id("p"), ref.Id("q")))), a), ref.Int(3)), []string{"a"}, tup(10, 2)},
	}
}

var c01dials = gen.Dials{MaxDepth: 6, Budget: 70, VarLeaf: 0.75, Bind: 0.4, Fault: 0.008, Collide: 0.02}

func (c01) Run(c *wk.Case) {
	mon.InstallSlot()
	vl := getPlainVlang()
	corpus := c01Corpus()
	var prog *ref.Node
	var argNames []string
	var tuples [][]ref.Value
	var stats map[string]int
	label := "generated"
	hashTuple := -1
	_ = hashTuple
	if c.Index < int64(len(corpus)) {
		cp := corpus[c.Index]
		prog, argNames, tuples, label = cp.prog, cp.args, cp.tuple, "corpus:"+cp.name
		stats = map[string]int{"let": 1}
	} else {
		p := gen.GenProgram(c.Rng, c01dials, c.Rng.IntN(4))
		prog, argNames, stats = p.Root, p.ArgNames, p.Stats
		nt := 4
		if len(argNames) == 0 {
			nt = 1
		}
		for k := 0; k < nt; k++ {
			tuples = append(tuples, genArgs(c.Rng, p))
		}
		if nt > 1 {
			// one tuple is handed over with hash maps (iteration order unspecified)
			tuples[nt-1] = hashMapArgs(tuples[nt-1])
			hashTuple = nt - 1
		}
	}
	popts := ref.PrintOpts{FullParens: c.Rng.IntN(4) == 0}
	src, ok := safeSource(prog, popts)
	if !ok {
		c.Inconclusive("generator-bug", "program with a let in a position the grammar does not allow")
		return
	}
	c.Logf("program: %s\nargs: %v", src, argNames)
	type side struct {
		name string
		f    func([]ref.Value) bridge.Outcome
	}
	var sides []side
	for _, s := range []struct {
		name string
		opt  bool
	}{{"optimizer", true}, {"no-optimizer", false}} {
		g := vl.opt
		if !s.opt {
			g = vl.noopt
		}
		f, err, pan := generate(g, src, argNames)
		if pan != nil {
			c.Violation("generate-panic", fmt.Sprintf("[%s] Generate panics on %q: %v", s.name, src, pan), map[string]any{"src": src, "label": label})
			return
		}
		rng := c.Rng
		if err != nil {
			gerr := err
			sides = append(sides, side{s.name, func([]ref.Value) bridge.Outcome { return bridge.Outcome{Err: gerr} }})
		} else {
			sides = append(sides, side{s.name, func(a []ref.Value) bridge.Outcome {
				if isHash(a) {
					return evalReal(f, realArgsVariant(a, bridge.Variant{LazyLists: rng.IntN(2) == 0, MapKind: 1}))
				}
				ra, _ := realArgs(rng, a)
				return evalReal(f, ra)
			}})
		}
	}
	in := ref.NewInterp()
	unspecAll := true
	for _, tu := range tuples {
		wv, we, rae := refEval(in, prog, argNames, tu)
		if c.Verbose {
			c.Logf("args %v -> reference %s err=%v", describeArgs(tu), ref.Describe(wv), we)
		}
		if we != nil && we.Budget {
			// too expensive (e.g. exponentially growing lists): the real evaluation is not attempted
			c.Count("skipped_expensive_tuples", 1)
			continue
		}
		if we != nil && we.Unspec {
			// nothing to compare; the program may also be expensive behind the point where the model stopped
			c.Count("unspecified_outcomes", 1)
			continue
		}
		for _, s := range sides {
			mon.TheSlot.Take()
			got := s.f(tu)
			if c.Verbose {
				c.Logf("  [%s] real %s err=%v", s.name, bridge.Describe(got.Val), got.Err)
			}
			got.FloatTol = regroupTol(s.name == "optimizer", src)
			v, why := bridge.CompareOutcome(wv, we, rae, got)
			switch v {
			case bridge.Disagree:
				small, swhy := shrinkDisagreement(vl, prog, argNames, tuples, popts)
				c.Violation(c01sig(prog), fmt.Sprintf("[%s, %s] %q with %v: %s || reduced: %q: %s", label, s.name, src, describeArgs(tu), why, small, swhy),
					map[string]any{"src": src, "args": describeArgs(tu), "side": s.name, "why": why, "label": label, "reduced": small, "reduced_why": swhy})
				return
			case bridge.Unspecified:
				c.Count("unspecified_outcomes", 1)
			default:
				unspecAll = false
				if we != nil {
					c.Count("agreed_error_outcomes", 1)
				} else {
					c.Count("agreed_value_outcomes", 1)
				}
			}
			if mm := mon.TheSlot.Take(); len(mm) > 0 {
				c.Violation("slot-mismatch", fmt.Sprintf("[%s, %s] %q: %s", label, s.name, src, mm[0]),
					map[string]any{"src": src, "args": describeArgs(tu), "side": s.name, "events": mm, "label": label})
				return
			}
		}
	}
	ev := mon.TheSlot.Events.Swap(0)
	c.Count("hook_letbind_events", ev)
	keys := make([]string, 0, len(stats))
	for k, v := range stats {
		c.Count("construct_"+k, int64(v))
		keys = append(keys, k)
	}
	sort.Strings(keys)
	binding := stats["let"]+stats["func"]+stats["closure"]+stats["if"]+stats["switch"]+stats["try"] > 0
	if binding && !unspecAll && !isConstAST(vl.opt, src, argNames) {
		c.NonTrivial(wk.Hash64(src))
		c.Sample(map[string]any{"program": src, "args": argNames, "first_tuple": describeArgs(firstTuple(tuples))})
	}
}

func firstTuple(t [][]ref.Value) []ref.Value {
	if len(t) == 0 {
		return nil
	}
	return t[0]
}

// c01sig names a value disagreement by the kinds of constructs in the program
// (only used to group reports; every unlisted signature is a violation).
func c01sig(prog *ref.Node) string {
	return "outcome-differs-from-reference"
}

// disagreement re-runs a program on both real generators and returns the first disagreement.
func disagreement(vl *vlang, prog *ref.Node, argNames []string, tuples [][]ref.Value, popts ref.PrintOpts) (bool, string) {
	src, ok := safeSource(prog, popts)
	if !ok || !ref.WellScoped(prog, argNames) {
		return false, ""
	}
	in := ref.NewInterp()
	for _, g := range []*value.FunctionGenerator{vl.opt, vl.noopt} {
		f, err, pan := generate(g, src, argNames)
		if pan != nil {
			return true, fmt.Sprintf("Generate panics: %v", pan)
		}
		for _, tu := range tuples {
			wv, we, rae := refEval(in, prog, argNames, tu)
			var got bridge.Outcome
			if err != nil {
				got = bridge.Outcome{Err: err}
			} else {
				if isHash(tu) {
					got = evalReal(f, realArgsVariant(tu, bridge.Variant{MapKind: 1}))
				} else {
					ra, _ := realArgs(rand.New(rand.NewPCG(1, 2)), tu)
					got = evalReal(f, ra)
				}
			}
			got.FloatTol = regroupTol(g == vl.opt, src)
			if v, why := bridge.CompareOutcome(wv, we, rae, got); v == bridge.Disagree {
				return true, fmt.Sprintf("args %v: %s", describeArgs(tu), why)
			}
		}
	}
	return false, ""
}

var shrinkCount int

func shrinkDisagreement(vl *vlang, prog *ref.Node, argNames []string, tuples [][]ref.Value, popts ref.PrintOpts) (string, string) {
	shrinkCount++
	if shrinkCount > 3 {
		// reducing is expensive; a few reduced witnesses per worker process are enough
		return "(not reduced)", ""
	}
	cp := prog.Clone()
	why := ""
	ref.Shrink(cp, func(n *ref.Node) bool {
		bad, w := disagreement(vl, n, argNames, tuples, popts)
		if bad {
			why = w
		}
		return bad
	}, 3000)
	_, why = disagreement(vl, cp, argNames, tuples, popts)
	src, _ := safeSource(cp, popts)
	return src, why
}

// isHash reports whether the tuple was marked by hashMapArgs.
func isHash(args []ref.Value) bool {
	for _, a := range args {
		if hasUnordered(a) {
			return true
		}
	}
	return false
}

func hasUnordered(v ref.Value) bool {
	switch t := v.(type) {
	case *ref.List:
		items, _ := ref.NewInterp().Force(t)
		for _, it := range items {
			if hasUnordered(it) {
				return true
			}
		}
	case *ref.Map:
		return t.Unordered
	}
	return false
}
