// Package props holds one implementation of wk.Prop per property.
package props

import "verif/wk"

// Registry maps property ids to implementations.
var Registry = map[string]wk.Prop{}

func register(id string, p wk.Prop) { Registry[id] = p }

func single(name string, shards int) []wk.Config {
	return []wk.Config{{Name: name, CPUs: 1, Shards: shards}}
}
