package props

// G-hist: histories over a pool of live handles (lists for C09, maps for C13).
// Every step derives a new handle from existing ones by ONE operation executed
// through a small generated function whose arguments are the live real values
// held by the worker (so values really are bound, passed and stored across
// evaluations); afterwards every live handle is observed through every
// observer and compared with the purely functional reference value.

import (
	"fmt"
	"math/rand/v2"
	"strings"

	"github.com/hneemann/parser2/funcGen"
	"github.com/hneemann/parser2/value"

	"verif/bridge"
	"verif/ref"
	"verif/wk"
)

type handle struct {
	ref  ref.Value
	real value.Value
	how  string
	// quiet > 0: the handle is not observed for that many steps, so that a lazily produced list is still
	// unevaluated when the next operation is applied to it
	quiet int
}

type hist struct {
	c       *wk.Case
	r       *rand.Rand
	g       *value.FunctionGenerator
	in      *ref.Interp
	hs      []*handle
	log     []string
	funcs   map[string]funcGen.Func[value.Value]
	keyPool []string
	failed  bool
}

var histFuncs = map[string]funcGen.Func[value.Value]{}

func newHist(c *wk.Case) *hist {
	g := getPlainVlang().opt
	if c.Index%5 == 4 {
		g = getPlainVlang().noopt
	}
	return &hist{c: c, r: c.Rng, g: g, in: ref.NewInterp(), funcs: histFuncs,
		keyPool: []string{"a", "b", "c", "k1", "a b", "", "x.y", "ä", "A", "key"}}
}

func (h *hist) fn(src string, names []string) (funcGen.Func[value.Value], error) {
	key := fmt.Sprint(h.g == getPlainVlang().opt) + "|" + strings.Join(names, ",") + "|" + src
	if f, ok := h.funcs[key]; ok {
		return f, nil
	}
	f, err, pan := generate(h.g, src, names)
	if pan != nil {
		return nil, fmt.Errorf("Generate panics: %v", pan)
	}
	if err != nil {
		return nil, err
	}
	if len(h.funcs) < 20000 {
		h.funcs[key] = f
	}
	return f, nil
}

// run executes prog (over argument names h0..hn bound to the given handles) on both sides.
func (h *hist) run(prog *ref.Node, args []*handle) (ref.Value, *ref.Err, bridge.Outcome, string) {
	names := make([]string, len(args))
	refArgs := make([]ref.Value, len(args))
	realArgs := make([]value.Value, len(args))
	for i, a := range args {
		names[i] = fmt.Sprintf("h%d", i)
		refArgs[i] = a.ref
		realArgs[i] = a.real
	}
	src, ok := safeSource(prog, ref.PrintOpts{})
	if !ok {
		return nil, &ref.Err{Msg: "generator bug", Unspec: true}, bridge.Outcome{}, ""
	}
	wv, we := h.in.Run(prog, names, refArgs)
	if we == nil {
		if e := h.in.DeepForce(wv); e != nil {
			we = e
		}
	}
	f, err := h.fn(src, names)
	if err != nil {
		return wv, we, bridge.Outcome{Err: err}, src
	}
	// note: the result is NOT forced here: lazy results stay lazy handles
	var got bridge.Outcome
	func() {
		defer func() {
			if r := recover(); r != nil {
				got = bridge.Outcome{Err: fmt.Errorf("panic: %v", r), Panic: r}
			}
		}()
		v, e := f.Eval(realArgs...)
		got = bridge.Outcome{Val: v, Err: e}
	}()
	return wv, we, got, src
}

func (h *hist) describeHistory() string { return strings.Join(h.log, " ; ") }

func (h *hist) violation(sig, msg string) {
	h.failed = true
	h.c.Violation(sig, msg+" || history: "+truncate(h.describeHistory(), 1500), map[string]any{"history": h.log, "what": msg})
}

// derive performs one step: op over chosen handles; on success the result becomes a new handle.
func (h *hist) derive(what string, prog *ref.Node, args ...*handle) *handle {
	wv, we, got, src := h.run(prog, args)
	step := fmt.Sprintf("h%d := [%s] %s", len(h.hs), what, src)
	if we != nil && we.Unspec {
		h.c.Count("unspecified_steps", 1)
		return nil
	}
	if got.Panic != nil {
		h.log = append(h.log, step)
		h.violation("panic-in-step", fmt.Sprintf("step %q panics: %v", src, got.Panic))
		return nil
	}
	if we != nil {
		// lazily failing results are forced for the comparison only when the model fails
		fo := bridge.Force(got.Val, got.Err)
		if fo.Err == nil {
			h.log = append(h.log, step)
			h.violation("step-should-fail", fmt.Sprintf("step %q: model fails (%s), real gives %s", src, we.Msg, bridge.Describe(fo.Val)))
		}
		h.c.Count("failing_steps_agreed", 1)
		return nil
	}
	if got.Err != nil {
		h.log = append(h.log, step)
		h.violation("step-fails", fmt.Sprintf("step %q: model gives %s, real fails: %v", src, ref.Describe(wv), got.Err))
		return nil
	}
	nh := &handle{ref: wv, real: got.Val, how: what}
	h.log = append(h.log, step+" -> "+truncate(ref.Describe(wv), 120))
	h.hs = append(h.hs, nh)
	return nh
}

// observe compares one observation program over a single handle with the model.
func (h *hist) observe(i int, what string, prog *ref.Node, extra ...*handle) bool {
	args := append([]*handle{h.hs[i]}, extra...)
	wv, we, got, src := h.run(prog, args)
	if we != nil && we.Unspec {
		h.c.Count("unspecified_observations", 1)
		return true
	}
	h.c.Count("observations", 1)
	fo := bridge.Force(got.Val, got.Err)
	if got.Panic != nil {
		fo.Panic = got.Panic
	}
	fo.FloatTol = regroupTol(true, src)
	v, why := bridge.CompareOutcome(wv, we, false, fo)
	if v == bridge.Disagree {
		h.violation("observer:"+what, fmt.Sprintf("handle h%d (made by %s) observed through %q: %s", i, h.hs[i].how, src, why))
		return false
	}
	return true
}
