package props

// C02 — constant folding is unobservable (optimizer transparency).
// Monitors: M-count (counting host functions registered through the public
// API, counters read after Generate and after every Eval), outcome diff
// optimizer vs SetOptimizer(nil), M-ref as third opinion. Three
// instantiations: value language, float generator, bool generator.

import (
	"fmt"
	"math"
	"runtime"
	"strings"
	"sync"
	"time"

	"github.com/hneemann/parser2"
	"github.com/hneemann/parser2/funcGen"
	"github.com/hneemann/parser2/value"

	"verif/bridge"
	"verif/gen"
	"verif/ref"
	"verif/wk"
)

type c02 struct{}

func init() { register("C02", c02{}) }

func (c02) Plan(tier string) wk.Plan {
	n := int64(40000)
	if tier == "thorough" {
		n = 3_000_000
	}
	return wk.Plan{
		Level: "exploration", Cases: n, Chunk: 500, Configs: single("seq", 16), CaseBudget: 8,
		Rule:          "case = one generated program, constant-rich (G-prog with few argument leaves; chains c1 op x op c2 for every operator; constant closures/lists/maps; if/switch on constants; short-circuit &,| with failing or impure right operands) for one of three instantiations (value language 70%, float generator 15%, bool generator 15%), generated twice: default optimizer and SetOptimizer(nil). Refuting events: outcomes differ (floats within 1e-12 only if the program multiplies float constants), a counted impure host function runs during Generate, per-function impure call counts of an Eval differ between the two builds, an impure function in an untaken branch runs. Non-trivial = the optimizer changed the AST (printed ASTs differ) and the program depends on an argument or an impure call; distinct by source.",
		Floor:         200,
		FloorCounters: map[string]int64{"impure_calls_observed": 100},
		Assumptions: []string{
			"host functions registered with IsPure:false are the impure functions; ptick is registered IsPure:true and may legitimately be folded at Generate time",
			"workers run on one CPU (sequential list stages); the order of impure calls is not compared, only their number per function",
		},
	}
}

// ---- counting host functions ----

type counters struct {
	mu sync.Mutex
	n  map[string]int
}

func (c *counters) add(name string) {
	c.mu.Lock()
	c.n[name]++
	c.mu.Unlock()
}

func (c *counters) take() map[string]int {
	c.mu.Lock()
	defer c.mu.Unlock()
	m := c.n
	c.n = map[string]int{}
	return m
}

var c02cnt = &counters{n: map[string]int{}}

var c02vl *vlang

func c02Vlang() *vlang {
	if c02vl != nil {
		return c02vl
	}
	c02vl = newVlang(func(g *value.FunctionGenerator) {
		id := func(name string, pure bool) {
			g.AddStaticFunction(name, funcGen.Function[value.Value]{
				Func: func(st funcGen.Stack[value.Value], cs []value.Value) (value.Value, error) {
					c02cnt.add(name)
					return st.Get(0), nil
				}, Args: 1, IsPure: pure}.SetDescription("x", "counts and returns x"))
		}
		id("tick", false)
		id("tickb", false)
		id("ticks", false)
		id("ptick", true)
		g.AddStaticFunction("boom", funcGen.Function[value.Value]{
			Func: func(st funcGen.Stack[value.Value], cs []value.Value) (value.Value, error) {
				c02cnt.add("boom")
				return nil, fmt.Errorf("boom")
			}, Args: 1, IsPure: false}.SetDescription("x", "fails"))
		g.AddStaticFunction("hpanic", funcGen.Function[value.Value]{
			Func: func(st funcGen.Stack[value.Value], cs []value.Value) (value.Value, error) {
				c02cnt.add("hpanic")
				panic("host function panics")
			}, Args: 1, IsPure: false}.SetDescription("x", "panics"))
	})
	return c02vl
}

var c02dials = gen.Dials{MaxDepth: 6, Budget: 60, VarLeaf: 0.25, Bind: 0.3, Fault: 0.01, Collide: 0.03,
	Host: map[string]*gen.Ty{
		"tick": gen.TFunc(gen.TInt, gen.TInt), "tickb": gen.TFunc(gen.TBool, gen.TBool), "ticks": gen.TFunc(gen.TStr, gen.TStr),
		"ptick": gen.TFunc(gen.TInt, gen.TInt), "boom": gen.TFunc(gen.TInt, gen.TInt), "hpanic": gen.TFunc(gen.TInt, gen.TInt),
	}}

func c02RefInterp() *ref.Interp {
	in := ref.NewInterp()
	in.NoShadow = true
	for _, n := range []string{"tick", "tickb", "ticks", "ptick"} {
		n := n
		in.Host[n] = func(in *ref.Interp, a []ref.Value) (ref.Value, *ref.Err) {
			in.Calls[n]++
			return a[0], nil
		}
	}
	in.Host["boom"] = func(in *ref.Interp, a []ref.Value) (ref.Value, *ref.Err) {
		in.Calls["boom"]++
		return nil, &ref.Err{Msg: "boom"}
	}
	in.Host["hpanic"] = func(in *ref.Interp, a []ref.Value) (ref.Value, *ref.Err) {
		in.Calls["hpanic"]++
		return nil, &ref.Err{Msg: "host function panics"}
	}
	return in
}

// special shapes that the random generator rarely produces
func c02Shape(g *gen.PG, k int) *ref.Node {
	ops := []string{"|", "&", "=", "!=", "<", ">", "<=", ">=", "+", "-", "<<", ">>", "*", "%", "/", "^"}
	tk := func(n *ref.Node) *ref.Node { return ref.Static("tick", n) }
	tb := func(n *ref.Node) *ref.Node { return ref.Static("tickb", n) }
	a := ref.Id("arg0")
	c := func() *ref.Node {
		switch g.R.IntN(4) {
		case 0:
			return ref.Int(int64(g.R.IntN(7)))
		case 1:
			return ref.Float(float64(g.R.IntN(33)-16) / 8)
		case 2:
			return ref.Bool(g.R.IntN(2) == 0)
		default:
			return ref.Str([]string{"a", "", "x1"}[g.R.IntN(3)])
		}
	}
	op := ops[g.R.IntN(len(ops))]
	if k%13 == 11 {
		// a lazy list made from a constant list by a stage whose closure takes several arguments is bound, then
		// other (non-constant) locals are declared, then the list is consumed and the locals are read
		id := ref.Id
		src := ref.ListN(ref.Int(1), ref.Int(2), ref.Int(3), ref.Int(4))
		pq := []string{"p", "q"}
		stages := []*ref.Node{
			ref.Method(src, "combine", ref.Clo(pq, ref.Bin("+", id("p"), id("q")))),
			ref.Method(src, "combine3", ref.Clo([]string{"p", "q", "r"}, ref.Bin("+", ref.Bin("+", id("p"), id("q")), id("r")))),
			ref.Method(src, "number", ref.Clo(pq, ref.Bin("+", ref.Bin("*", id("p"), ref.Int(10)), id("q")))),
			ref.Method(src, "iir", ref.Clo([]string{"p"}, id("p")), ref.Clo(pq, ref.Bin("+", id("p"), id("q")))),
			ref.Method(src, "iirCombine", ref.Clo([]string{"p"}, id("p")), ref.Clo([]string{"p", "q", "r"}, ref.Bin("+", ref.Bin("+", id("p"), id("q")), id("r")))),
			ref.Method(src, "cross", ref.ListN(ref.Int(1), ref.Int(2)), ref.Clo(pq, ref.Bin("*", id("p"), id("q")))),
			ref.Method(src, "merge", ref.ListN(ref.Int(2), ref.Int(5)), ref.Clo(pq, ref.Bin("<", id("p"), id("q")))),
			ref.Method(src, "compact", ref.Clo(pq, ref.Bin("=", ref.Bin("/", id("p"), ref.Int(2)), ref.Bin("/", id("q"), ref.Int(2))))),
			ref.Method(src, "combineN", ref.Int(2), ref.Clo([]string{"w"}, ref.Method(id("w"), "sum"))),
			ref.Method(src, "map", ref.Clo([]string{"p"}, ref.Bin("*", id("p"), ref.Int(2)))),
			ref.Method(src, "accept", ref.Clo([]string{"p"}, ref.Bin(">", id("p"), ref.Int(1)))),
		}
		use := []*ref.Node{ref.Method(id("l"), "size"), ref.Method(id("l"), "sum"), ref.Method(id("l"), "string")}[g.R.IntN(3)]
		return ref.Let("l", stages[g.R.IntN(len(stages))], ref.Let("u", ref.Bin("+", a, ref.Int(1)), ref.Let("v", ref.Bin("+", a, ref.Int(2)), ref.Let("w", ref.Bin("*", a, ref.Int(3)),
			ref.ListN(use, id("u"), id("v"), id("w"), ref.Method(id("l"), "size"))))))
	}
	switch k % 10 {
	case 0: // (c1 op x) op c2
		return ref.Bin(op, ref.Bin(op, c(), a), c())
	case 1: // (x op c1) op c2
		return ref.Bin(op, ref.Bin(op, a, c()), c())
	case 2: // (c1 op tick(x)) op c2 : impure operand in a chain
		return ref.Bin(op, ref.Bin(op, c(), tk(a)), c())
	case 3: // short circuit with impure / failing right operand
		r := []*ref.Node{tb(ref.Bool(true)), ref.Bin("=", ref.Static("boom", ref.Int(1)), ref.Int(1)), ref.Bin("=", ref.Static("hpanic", ref.Int(1)), ref.Int(1)), ref.Bin("<", ref.Str("a"), ref.Int(1))}[g.R.IntN(4)]
		l := []*ref.Node{ref.Bool(false), ref.Bool(true), ref.Bin("<", a, ref.Int(3))}[g.R.IntN(3)]
		return ref.Bin([]string{"&", "|"}[g.R.IntN(2)], ref.Bin([]string{"&", "|"}[g.R.IntN(2)], l, r), ref.Bool(g.R.IntN(2) == 0))
	case 4: // untaken branch with impure / failing code
		bad := []*ref.Node{tk(ref.Int(1)), ref.Static("boom", ref.Int(1)), ref.Static("hpanic", ref.Int(1)), ref.Bin("%", ref.Int(1), ref.Int(0)), ref.Static("ptick", ref.Int(5))}[g.R.IntN(5)]
		cond := ref.Bool(g.R.IntN(2) == 0)
		if g.R.IntN(2) == 0 {
			return ref.If(cond, bad, ref.Bin("+", a, ref.Int(1)))
		}
		return ref.If(cond, ref.Bin("+", a, ref.Int(1)), bad)
	case 5: // switch on a constant with impure case results
		return ref.Switch(ref.Int(int64(g.R.IntN(3))), []*ref.Node{ref.Int(0), ref.Int(1)}, []*ref.Node{tk(a), ref.Static("boom", a)}, ref.Bin("*", a, ref.Int(2)))
	case 6: // constant closure applied to constants, impure closure applied to constants
		if g.R.IntN(2) == 0 {
			return ref.Call(ref.Clo([]string{"p"}, ref.Bin("+", ref.Id("p"), ref.Int(1))), ref.Int(4))
		}
		return ref.Bin("+", ref.Call(ref.Clo([]string{"p"}, tk(ref.Id("p"))), ref.Int(4)), a)
	case 7: // constant list through methods, one closure impure
		return ref.Bin("+", ref.Method(ref.Method(ref.ListN(ref.Int(1), ref.Int(2), ref.Int(3)), "map", ref.Clo([]string{"p"}, tk(ref.Id("p")))), "sum"), a)
	case 8: // string '+' chain (non-commutative)
		return ref.Bin("+", ref.Bin("+", ref.Str("a"), ref.Static("string", a)), ref.Str("b"))
	default: // let with constant value and impure use
		return ref.Let("v", ref.Bin("*", ref.Int(3), ref.Int(4)), ref.Bin("+", tk(ref.Id("v")), a))
	}
}

func sameCounts(a, b map[string]int) bool {
	for _, n := range []string{"tick", "tickb", "ticks", "boom", "hpanic"} {
		if a[n] != b[n] {
			return false
		}
	}
	return true
}

func (c02) Run(c *wk.Case) {
	switch {
	case c.Index%20 < 14:
		c02Value(c)
	case c.Index%20 < 17:
		c02Generic(c, true)
	default:
		c02Generic(c, false)
	}
}

func c02Value(c *wk.Case) {
	vl := c02Vlang()
	var prog *ref.Node
	argNames := []string{"arg0"}
	var p *gen.Program
	if c.Index%7 == 5 {
		// a constant container used by argument-dependent operations, evaluated on several tuples one after the
		// other: an operation working in place on the folded constant shows from the second evaluation on
		p = c10ConstProgram(c.Rng, false)
		prog, argNames = p.Root, p.ArgNames
	} else if c.Index%3 == 0 {
		g := gen.NewPG(c.Rng, c02dials)
		prog = c02Shape(g, int(c.Index/3))
		p = &gen.Program{ArgNames: argNames, ArgTypes: []*gen.Ty{gen.TInt}}
	} else {
		p = gen.GenProgram(c.Rng, c02dials, c.Rng.IntN(3))
		prog, argNames = p.Root, p.ArgNames
	}
	src, ok := safeSource(prog, ref.PrintOpts{})
	if !ok {
		c.Inconclusive("generator-bug", "let in a forbidden position")
		return
	}
	c.Logf("program: %s", src)
	c02cnt.take()
	fo, errO, panO := generate(vl.opt, src, argNames)
	genCountsO := c02cnt.take()
	fn, errN, panN := generate(vl.noopt, src, argNames)
	genCountsN := c02cnt.take()
	if panO != nil || panN != nil {
		c.Violation("generate-panic", fmt.Sprintf("Generate panics on %q: %v / %v", src, panO, panN), map[string]any{"src": src})
		return
	}
	for _, gc := range []map[string]int{genCountsO, genCountsN} {
		for _, n := range []string{"tick", "tickb", "ticks", "boom", "hpanic"} {
			if gc[n] > 0 {
				c.Violation("impure-executed-during-generate", fmt.Sprintf("%q: impure host function %s ran %d time(s) during Generate", src, n, gc[n]), map[string]any{"src": src, "counts": gc})
				return
			}
		}
	}
	if (errO == nil) != (errN == nil) {
		c.Violation("generate-ok-differs", fmt.Sprintf("%q: Generate with optimizer: %v; without: %v", src, errO, errN), map[string]any{"src": src})
		return
	}
	if errO != nil {
		c.Count("generate_errors_both", 1)
		return
	}
	in := c02RefInterp()
	floatConstMul := strings.Contains(src, "*") && strings.Count(src, ".") >= 2
	var tuples [][]ref.Value
	nt := 3
	if len(argNames) == 0 {
		nt = 1
	}
	for k := 0; k < nt; k++ {
		tuples = append(tuples, genArgs(c.Rng, p))
	}
	impureSeen := 0
	// merge and multiUse evaluate stages on goroutines of their own: how far a producer runs ahead of an
	// early-stopping or failing consumer depends on timing, so call counts are not comparable there
	concurrentStages := strings.Contains(src, ".merge(") || strings.Contains(src, ".multiUse(")
	baseG := runtime.NumGoroutine()
	settle := func() {
		if !concurrentStages {
			return
		}
		for i := 0; i < 200 && runtime.NumGoroutine() > baseG; i++ {
			time.Sleep(250 * time.Microsecond)
		}
	}
	for _, tu := range tuples {
		va := bridge.Variant{LazyLists: c.Rng.IntN(2) == 0, MapKind: []int{0, 2, 3, 4}[c.Rng.IntN(4)]}
		wv, we, _ := refEval(in, prog, argNames, tu)
		if we != nil && we.Unspec {
			// the documentation leaves the outcome open (e.g. string form of a hash map): both builds may differ legitimately
			c.Count("reference_unspecified", 1)
			continue
		}
		refCalls := in.Calls
		c02cnt.take()
		gotO := evalReal(fo, realArgsVariant(tu, va))
		settle()
		cntO := c02cnt.take()
		gotN := evalReal(fn, realArgsVariant(tu, va))
		settle()
		cntN := c02cnt.take()
		for _, v := range cntN {
			impureSeen += v
		}
		c.Logf("args %v: opt %s err=%v counts=%v | noopt %s err=%v counts=%v", describeArgs(tu), bridge.Describe(gotO.Val), gotO.Err, cntO, bridge.Describe(gotN.Val), gotN.Err, cntN)
		if gotO.Panic != nil || gotN.Panic != nil {
			c.Violation("panic-escaped", fmt.Sprintf("%q with %v: panic escaped: %v / %v", src, describeArgs(tu), gotO.Panic, gotN.Panic), map[string]any{"src": src, "args": describeArgs(tu)})
			return
		}
		if (gotO.Err == nil) != (gotN.Err == nil) {
			c.Violation("optimizer-changes-outcome", fmt.Sprintf("%q with %v: optimizer: %s err=%v; no optimizer: %s err=%v", src, describeArgs(tu), bridge.Describe(gotO.Val), gotO.Err, bridge.Describe(gotN.Val), gotN.Err),
				map[string]any{"src": src, "args": describeArgs(tu)})
			return
		}
		if gotO.Err == nil {
			if ok, d := realEqual(gotO.Val, gotN.Val, floatConstMul, ""); !ok {
				c.Violation("optimizer-changes-outcome", fmt.Sprintf("%q with %v: optimizer and no-optimizer values differ: %s", src, describeArgs(tu), d), map[string]any{"src": src, "args": describeArgs(tu), "diff": d})
				return
			}
		}
		if concurrentStages {
			c.Count("count_comparison_skipped_concurrent_stages", 1)
		} else if !sameCounts(cntO, cntN) {
			c.Violation("impure-call-count-differs", fmt.Sprintf("%q with %v: impure calls with optimizer %v, without %v", src, describeArgs(tu), cntO, cntN), map[string]any{"src": src, "args": describeArgs(tu), "opt": cntO, "noopt": cntN})
			return
		}
		// third opinion: the reference model (counts and outcome of the unoptimised build)
		if v, why := bridge.CompareOutcome(wv, we, false, gotN); v == bridge.Disagree {
			c.Violation("outcome-differs-from-reference", fmt.Sprintf("%q with %v: %s", src, describeArgs(tu), why), map[string]any{"src": src, "args": describeArgs(tu), "why": why})
			return
		}
		if we == nil {
			same := true
			for _, n := range []string{"tick", "tickb", "ticks", "boom", "hpanic"} {
				if refCalls[n] != cntN[n] {
					same = false
				}
			}
			if !same {
				// the model counts what a left-to-right evaluation calls; lazily unconsumed stages make this an upper bound only
				c.Count("reference_count_differs_lazy", 1)
			} else {
				c.Count("reference_count_agrees", 1)
			}
		}
	}
	c.Count("impure_calls_observed", int64(impureSeen))
	// non-trivial: optimizer changed the AST and the program depends on an argument or an impure call
	a1, a2 := astString(vl.opt, src, argNames), astString(vl.noopt, src, argNames)
	if a1 != a2 && a1 != "" {
		c.Count("optimizer_changed_ast", 1)
		if impureSeen > 0 || usesArg(prog, argNames) {
			c.NonTrivial(wk.Hash64(src))
			c.Sample(map[string]any{"program": src, "optimised_ast": a1})
		}
	}
}

func usesArg(n *ref.Node, args []string) bool {
	found := false
	n.Walk(func(x *ref.Node) {
		if x.K == ref.KIdent {
			for _, a := range args {
				if a == x.Name {
					found = true
				}
			}
		}
	})
	return found
}

func astString(g *value.FunctionGenerator, src string, args []string) (s string) {
	defer func() {
		if recover() != nil {
			s = ""
		}
	}()
	ast, err := g.CreateAst(src, g.Identifier().AddArgs(args, nil))
	if err != nil {
		return ""
	}
	return ast.String()
}

// realEqual compares two real values structurally.
func realEqual(a, b value.Value, tol bool, path string) (bool, string) {
	switch x := a.(type) {
	case value.Int:
		if y, ok := b.(value.Int); ok && x == y {
			return true, ""
		}
	case value.Float:
		if y, ok := b.(value.Float); ok {
			fx, fy := float64(x), float64(y)
			if fx == fy || (math.IsNaN(fx) && math.IsNaN(fy)) {
				return true, ""
			}
			if tol && math.Abs(fx-fy) <= 1e-12*math.Max(math.Abs(fx), math.Abs(fy)) {
				return true, ""
			}
		}
	case value.String:
		if y, ok := b.(value.String); ok && x == y {
			return true, ""
		}
	case value.Bool:
		if y, ok := b.(value.Bool); ok && x == y {
			return true, ""
		}
	case value.Closure:
		if y, ok := b.(value.Closure); ok && x.Args == y.Args {
			return true, ""
		}
	case *value.List:
		y, ok := b.(*value.List)
		if !ok {
			break
		}
		st := funcGen.NewEmptyStack[value.Value]()
		xs, e1 := x.ToSlice(st)
		ys, e2 := y.ToSlice(st)
		if e1 != nil || e2 != nil {
			return (e1 != nil) == (e2 != nil), path + ": one list fails"
		}
		if len(xs) != len(ys) {
			return false, fmt.Sprintf("%s: sizes %d / %d", path, len(xs), len(ys))
		}
		// same code on both sides: also unordered results must agree as multisets only
		used := make([]bool, len(ys))
		for i := range xs {
			if ok, _ := realEqual(xs[i], ys[i], tol, path); ok && !used[i] {
				used[i] = true
				continue
			}
			found := false
			for j := range ys {
				if !used[j] {
					if ok, _ := realEqual(xs[i], ys[j], tol, path); ok {
						used[j], found = true, true
						break
					}
				}
			}
			if !found {
				return false, fmt.Sprintf("%s[%d]: %s has no counterpart", path, i, bridge.Describe(xs[i]))
			}
		}
		return true, ""
	case value.Map:
		y, ok := b.(value.Map)
		if !ok {
			break
		}
		if x.Size() != y.Size() {
			return false, fmt.Sprintf("%s: map sizes %d / %d", path, x.Size(), y.Size())
		}
		res, diff := true, ""
		x.Iter(func(k string, xv value.Value) bool {
			yv, has := y.Get(k)
			if !has {
				res, diff = false, path+": key "+k+" missing"
				return false
			}
			if ok, d := realEqual(xv, yv, tol, path+"."+k); !ok {
				res, diff = false, d
				return false
			}
			return true
		})
		return res, diff
	}
	return false, fmt.Sprintf("%s: %s / %s", path, bridge.Describe(a), bridge.Describe(b))
}

// ---- generic instantiations (float / bool) with a counting impure function ----

var c02gen struct {
	f [2]*funcGen.FunctionGenerator[float64]
	b [2]*funcGen.FunctionGenerator[bool]
}

var c02gcnt = &counters{n: map[string]int{}}

func c02FloatGen(opt bool) *funcGen.FunctionGenerator[float64] {
	i := 0
	if opt {
		i = 1
	}
	if c02gen.f[i] == nil {
		g := newFloatGen(3, opt).g
		g.AddStaticFunction("tick", funcGen.Function[float64]{Func: func(st funcGen.Stack[float64], cs []float64) (float64, error) {
			c02gcnt.add("tick")
			return st.Get(0), nil
		}, Args: 1, IsPure: false})
		g.AddStaticFunction("boom", funcGen.Function[float64]{Func: func(st funcGen.Stack[float64], cs []float64) (float64, error) {
			c02gcnt.add("boom")
			return 0, fmt.Errorf("boom")
		}, Args: 1, IsPure: false})
		c02gen.f[i] = g
	}
	return c02gen.f[i]
}

func c02BoolGen(opt bool) *funcGen.FunctionGenerator[bool] {
	i := 0
	if opt {
		i = 1
	}
	if c02gen.b[i] == nil {
		g := newBoolGen(15, opt).g
		g.AddStaticFunction("tick", funcGen.Function[bool]{Func: func(st funcGen.Stack[bool], cs []bool) (bool, error) {
			c02gcnt.add("tick")
			return st.Get(0), nil
		}, Args: 1, IsPure: false})
		g.AddStaticFunction("boom", funcGen.Function[bool]{Func: func(st funcGen.Stack[bool], cs []bool) (bool, error) {
			c02gcnt.add("boom")
			return false, fmt.Errorf("boom")
		}, Args: 1, IsPure: false})
		c02gen.b[i] = g
	}
	return c02gen.b[i]
}

// wrapTicks renders a C19 tree with some sub-expressions wrapped in tick(...)/boom(...).
func c02Render(t *xt, isFloat bool, r func(int) int, depth int) string {
	var s string
	if isFloat {
		s = floatRenderWith(t, func(ch *xt) string { return c02Render(ch, true, r, depth+1) })
	} else {
		s = boolRenderWith(t, func(ch *xt) string { return c02Render(ch, false, r, depth+1) })
	}
	switch r(12) {
	case 0, 1:
		return "tick(" + s + ")"
	case 2:
		if depth > 0 {
			return "boom(" + s + ")"
		}
	}
	return s
}

// floatRenderWith / boolRenderWith render one node with fully parenthesised children rendered by sub.
func floatRenderWith(t *xt, sub func(*xt) string) string {
	switch t.k {
	case 'a':
		return floatAtoms[t.op]
	case 'u':
		if t.op == 1 {
			return "sqr(" + sub(t.l) + ")"
		}
		return "-(" + sub(t.l) + ")"
	case 'b':
		return "(" + sub(t.l) + ")" + floatOps[t.op] + "(" + sub(t.r) + ")"
	}
	return "0"
}

func boolRenderWith(t *xt, sub func(*xt) string) string {
	switch t.k {
	case 'a':
		return boolAtoms[t.op]
	case 'u':
		return "!(" + sub(t.l) + ")"
	case 'b':
		return "(" + sub(t.l) + ")" + boolOps[t.op] + "(" + sub(t.r) + ")"
	}
	return "true"
}

func c02Generic(c *wk.Case, isFloat bool) {
	var src string
	n := 1 + c.Rng.IntN(6)
	r := func(k int) int { return c.Rng.IntN(k) }
	if isFloat {
		T := treeCounts(6, 6, 8, 2)
		t := unrank(T, n, c.Rng.Int64N(T[n]), 6, 8, 2)
		src = c02Render(t, true, r, 0)
	} else {
		T := treeCounts(6, 5, 4, 1)
		t := unrank(T, n, c.Rng.Int64N(T[n]), 5, 4, 1)
		src = c02Render(t, false, r, 0)
	}
	c.Logf("program: %s", src)
	c02gcnt.take()
	type evalFn func(as int) (string, error)
	var evs [2]evalFn
	var asts [2]string
	for i, opt := range []bool{true, false} {
		var genErr error
		if isFloat {
			g := c02FloatGen(opt)
			f, _, err := g.Generate(src, "a", "b")
			genErr = err
			if err == nil {
				evs[i] = func(as int) (string, error) {
					v, err := f.Eval(floatGrid[as%8], floatGrid[(as/8)%8])
					if math.IsNaN(v) {
						return "NaN", err
					}
					return fmt.Sprint(v), err
				}
			}
			if ast, err := g.CreateAst(src, g.Identifier().AddArgs([]string{"a", "b"}, nil)); err == nil {
				asts[i] = ast.String()
			}
		} else {
			g := c02BoolGen(opt)
			f, _, err := g.Generate(src, "a", "b", "c")
			genErr = err
			if err == nil {
				evs[i] = func(as int) (string, error) {
					v, err := f.Eval(as&1 != 0, as&2 != 0, as&4 != 0)
					return fmt.Sprint(v), err
				}
			}
			if ast, err := g.CreateAst(src, g.Identifier().AddArgs([]string{"a", "b", "c"}, nil)); err == nil {
				asts[i] = ast.String()
			}
		}
		gc := c02gcnt.take()
		if gc["tick"]+gc["boom"] > 0 {
			c.Violation("impure-executed-during-generate", fmt.Sprintf("generic %q: impure function ran during Generate: %v", src, gc), map[string]any{"src": src})
			return
		}
		if genErr != nil {
			c.Violation("generic-generate-error", fmt.Sprintf("generic %q: %v", src, genErr), map[string]any{"src": src})
			return
		}
	}
	total := 0
	nas := 8
	if isFloat {
		nas = 64
	}
	for as := 0; as < nas; as++ {
		c02gcnt.take()
		v1, e1 := evs[0](as)
		c1 := c02gcnt.take()
		v2, e2 := evs[1](as)
		c2 := c02gcnt.take()
		total += c2["tick"] + c2["boom"]
		if (e1 == nil) != (e2 == nil) || (e1 == nil && v1 != v2 && !floatClose(v1, v2)) {
			c.Violation("optimizer-changes-outcome", fmt.Sprintf("generic %q assignment %d: optimizer %s err=%v; without %s err=%v", src, as, v1, e1, v2, e2), map[string]any{"src": src, "assignment": as})
			return
		}
		if c1["tick"] != c2["tick"] || c1["boom"] != c2["boom"] {
			c.Violation("impure-call-count-differs", fmt.Sprintf("generic %q assignment %d: impure calls with optimizer %v, without %v", src, as, c1, c2), map[string]any{"src": src, "assignment": as})
			return
		}
	}
	c.Count("impure_calls_observed", int64(total))
	if asts[0] != asts[1] && total > 0 {
		c.NonTrivial(wk.Hash64("g", src))
		c.Sample(map[string]any{"generic_program": src, "optimised_ast": asts[0]})
	}
}

func floatClose(a, b string) bool {
	var x, y float64
	if _, err := fmt.Sscan(a, &x); err != nil {
		return false
	}
	if _, err := fmt.Sscan(b, &y); err != nil {
		return false
	}
	return math.Abs(x-y) <= 1e-12*math.Max(math.Abs(x), math.Abs(y))
}

var _ = parser2.Line(0)
