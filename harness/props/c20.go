package props

// C20 — binning conserves mass and is additive.
// Monitor: M-ref — direct transcription of the statement: every element goes
// to exactly one bin (underflow below start, bin i for start+(i-1)*size <= x <
// start+i*size, overflow from start+count*size), bin values are the sums of
// the per-element values, descriptions carry the interval, and
// collectBinning over the binnings of parts equals the binning of the whole.

import (
	"fmt"
	"math"
	"strings"

	"github.com/hneemann/parser2/funcGen"
	"github.com/hneemann/parser2/value"

	"verif/bridge"
	"verif/ref"
	"verif/wk"
)

type c20 struct{}

func init() { register("C20", c20{}) }

func (c20) Plan(tier string) wk.Plan {
	n := int64(30000)
	if tier == "thorough" {
		n = 2_000_000
	}
	return wk.Plan{
		Level: "exploration", Cases: n, Chunk: 500, Configs: single("seq", 16), CaseBudget: 30,
		Rule:        "case = one list of records {x,y,v} with exactly representable values (multiples of 1/8, incl. values exactly on bin edges, zero, negatives, and values far outside the range up to +-1e30 and +-Inf) x one grid (start, size from dyadic pools, count 0..64) in one or two dimensions, evaluated through Generate: l.binning(...), l.binning2d(...), and parts.map(p->p.binning(...)).collectBinning() for ALL splittings of lists with <= 8 elements into consecutive parts (random splittings above). Oracle: transcription of the statement (bin index by interval comparison, exact sums, min/max of every description); additivity compares collectBinning with the binning of the whole. Non-trivial = at least one element on an edge or in an outer bin and at least 2 non-empty bins; distinct by (list, grid).",
		Floor:       300,
		Assumptions: []string{"all sums are exact in float64 by construction (multiples of 1/8, < 2^40)", "the text of a description (key str) is only checked for its shape (<x, >x, a-b); min/max are checked exactly"},
	}
}

type c20rec struct{ x, y, v float64 }

func binIndex(x, start, size float64, count int) int {
	// statement: underflow below start; bin i for start+(i-1)*size <= x < start+i*size; overflow from start+count*size
	if x < start {
		return 0
	}
	if x >= start+float64(count)*size {
		return count + 1
	}
	for i := 1; i <= count; i++ {
		if x >= start+float64(i-1)*size && x < start+float64(i)*size {
			return i
		}
	}
	return -1 // NaN
}

func c20Vlang() *value.FunctionGenerator { return getPlainVlang().opt }

var c20funcs = map[string]funcGen.Func[value.Value]{}

func c20Func(src string, args ...string) (funcGen.Func[value.Value], error) {
	if f, ok := c20funcs[src]; ok {
		return f, nil
	}
	f, err, pan := generate(c20Vlang(), src, args)
	if pan != nil {
		return nil, fmt.Errorf("panic: %v", pan)
	}
	if err == nil {
		c20funcs[src] = f
	}
	return f, err
}

func recList(rs []c20rec) ref.Value {
	items := make([]ref.Value, len(rs))
	for i, r := range rs {
		items[i] = ref.MapOf("x", r.x, "y", r.y, "v", r.v)
	}
	return ref.NewList(items...)
}

func getF(v value.Value) (float64, bool) {
	f, ok := v.(value.Float)
	return float64(f), ok
}

func listOf(v value.Value) ([]value.Value, bool) {
	l, ok := v.(*value.List)
	if !ok {
		return nil, false
	}
	s, err := l.ToSlice(funcGen.NewEmptyStack[value.Value]())
	return s, err == nil
}

// checkDescr checks the description of bin i of an axis.
func checkDescr(d value.Value, i int, start, size float64, count int) string {
	m, ok := d.(value.Map)
	if !ok {
		return "description is not a map"
	}
	mn, hasMin := m.Get("min")
	mx, hasMax := m.Get("max")
	str, hasStr := m.Get("str")
	if !hasStr {
		return "description has no str"
	}
	s, _ := str.(value.String)
	wantMin, wantMax := i > 0, i < count+1
	if hasMin != wantMin || hasMax != wantMax {
		return fmt.Sprintf("bin %d: min present=%v max present=%v", i, hasMin, hasMax)
	}
	if wantMin {
		if f, ok := getF(mn); !ok || f != start+float64(i-1)*size {
			return fmt.Sprintf("bin %d: min is %v, interval starts at %v", i, mn, start+float64(i-1)*size)
		}
	}
	if wantMax {
		if f, ok := getF(mx); !ok || f != start+float64(i)*size {
			return fmt.Sprintf("bin %d: max is %v, interval ends at %v", i, mx, start+float64(i)*size)
		}
	}
	switch {
	case !wantMin && !strings.HasPrefix(string(s), "<"):
		return fmt.Sprintf("underflow bin described as %q", s)
	case !wantMax && !strings.HasPrefix(string(s), ">"):
		return fmt.Sprintf("overflow bin described as %q", s)
	case wantMin && wantMax && !strings.Contains(string(s), "-"):
		return fmt.Sprintf("bin %d described as %q", i, s)
	}
	return ""
}

func (c20) Run(c *wk.Case) {
	r := c.Rng
	sizes := []float64{0.5, 1, 2, 0.25, 10, 3, 0.125, 7}
	starts := []float64{0, -4, 4, 0.5, -2.5, 100, -1000, 0.125}
	start, size := starts[r.IntN(len(starts))], sizes[r.IntN(len(sizes))]
	count := r.IntN(9)
	if r.IntN(5) == 0 {
		count = r.IntN(65)
	}
	ystart, ysize, ycount := starts[r.IntN(len(starts))], sizes[r.IntN(len(sizes))], r.IntN(6)
	n := r.IntN(9)
	if r.IntN(6) == 0 {
		n = 9 + r.IntN(40)
	}
	pick := func(st, sz float64, cnt int) float64 {
		switch r.IntN(10) {
		case 0, 1, 2: // exactly on an edge
			return st + float64(r.IntN(cnt+3)-1)*sz
		case 3: // just inside
			return st + float64(r.IntN(cnt+2))*sz + sz/2
		case 4:
			return []float64{1e30, -1e30, 1e15, -1e15, 9.3e18, -9.3e18, math.Inf(1), math.Inf(-1)}[r.IntN(8)]
		case 5:
			return 0
		default:
			return st + float64(r.IntN(8*(cnt+4))-8)*sz/8
		}
	}
	recs := make([]c20rec, n)
	edge := false
	for i := range recs {
		recs[i] = c20rec{pick(start, size, count), pick(ystart, ysize, ycount), float64(r.IntN(65)-16) / 8}
		if r.IntN(4) == 0 {
			recs[i].v = 1
		}
	}
	if r.IntN(6) == 0 {
		// values that need more than 24 significant bits (sums stay exact in float64)
		for i := range recs {
			if r.IntN(2) == 0 {
				recs[i].v = []float64{16777217, 1073741824.5, 25165825, -16777219, 4294967297, 33554433.25}[r.IntN(6)]
			}
		}
	}
	va := bridge.Variant{LazyLists: r.IntN(2) == 0, MapKind: r.IntN(5)}
	whole := bridge.ToReal(recList(recs), va)
	desc := fmt.Sprintf("start=%v size=%v count=%d records=%v", start, size, count, recs)
	twoD := c.Index%4 == 3
	nonEmpty := 0
	if !twoD {
		f, err := c20Func("l.binning(s,z,c,e->e.x,e->e.v)", "l", "s", "z", "c")
		if err != nil {
			c.Violation("binning-generate", err.Error(), nil)
			return
		}
		got := evalReal(f, []value.Value{whole, value.Float(start), value.Float(size), value.Int(count)})
		if got.Err != nil {
			c.Violation("binning-fails", fmt.Sprintf("binning fails: %v (%s)", got.Err, desc), map[string]any{"case": desc})
			return
		}
		want := make([]float64, count+2)
		total := 0.0
		for _, rc := range recs {
			i := binIndex(rc.x, start, size, count)
			want[i] += rc.v
			total += rc.v
			if i == 0 || i == count+1 || rc.x == start+float64(i-1)*size {
				edge = true
			}
		}
		m, ok := got.Val.(value.Map)
		if !ok {
			c.Violation("binning-shape", "result is not a map: "+desc, nil)
			return
		}
		vv, _ := m.Get("values")
		dv, _ := m.Get("descr")
		vals, ok1 := listOf(vv)
		descr, ok2 := listOf(dv)
		if !ok1 || !ok2 || len(vals) != count+2 || len(descr) != count+2 {
			c.Violation("binning-shape", fmt.Sprintf("result has %d values / %d descriptions for count %d: %s", len(vals), len(descr), count, desc), map[string]any{"case": desc})
			return
		}
		sum := 0.0
		for i := range vals {
			g, ok := getF(vals[i])
			if !ok || g != want[i] {
				c.Violation("bin-value", fmt.Sprintf("bin %d holds %v, the elements the statement assigns to it sum to %v (%s)", i, vals[i], want[i], desc), map[string]any{"case": desc, "bin": i})
				return
			}
			sum += g
			if g != 0 {
				nonEmpty++
			}
			if why := checkDescr(descr[i], i, start, size, count); why != "" {
				c.Violation("bin-description", why+" ("+desc+")", map[string]any{"case": desc, "bin": i})
				return
			}
		}
		if sum != total {
			c.Violation("mass-not-conserved", fmt.Sprintf("bins sum to %v, values sum to %v (%s)", sum, total, desc), map[string]any{"case": desc})
			return
		}
		// additivity over splittings
		fc, err := c20Func("p.map(q->q.binning(s,z,c,e->e.x,e->e.v)).collectBinning()", "p", "s", "z", "c")
		if err != nil {
			c.Violation("binning-generate", err.Error(), nil)
			return
		}
		nsplit := 1 << uint(max(n-1, 0))
		trySplit := func(mask int) bool {
			var parts []ref.Value
			cur := []c20rec{}
			for i, rc := range recs {
				cur = append(cur, rc)
				if i < n-1 && mask&(1<<uint(i)) != 0 {
					parts = append(parts, recList(cur))
					cur = []c20rec{}
				}
			}
			parts = append(parts, recList(cur))
			if r.IntN(4) == 0 {
				parts = append(parts, recList(nil)) // an empty part
			}
			gp := evalReal(fc, []value.Value{bridge.ToReal(ref.NewList(parts...), va), value.Float(start), value.Float(size), value.Int(count)})
			if gp.Err != nil {
				c.Violation("collect-fails", fmt.Sprintf("collectBinning fails for splitting %b: %v (%s)", mask, gp.Err, desc), map[string]any{"case": desc, "split": mask})
				return false
			}
			if ok, d := realEqual(got.Val, gp.Val, false, ""); !ok {
				c.Violation("not-additive", fmt.Sprintf("collectBinning over splitting %b differs from the binning of the whole: %s (%s)", mask, d, desc), map[string]any{"case": desc, "split": mask, "diff": d})
				return false
			}
			c.Count("splittings_checked", 1)
			return true
		}
		// the binnings of the parts are values of their own: collecting them (twice) must leave them what they
		// were, and give the same total both times
		if n >= 2 {
			fk, err := c20Func("[let bs=p.map(q->q.binning(s,z,c,e->e.x,e->e.v)).eval(); let t1=bs.collectBinning(); let t2=bs.collectBinning(); [t1.values, t2.values, bs[0].values, p[0].binning(s,z,c,e->e.x,e->e.v).values, bs.top(1).collectBinning().values]][0]", "p", "s", "z", "c")
			if err != nil {
				c.Violation("binning-generate", err.Error(), nil)
				return
			}
			cut := 1 + r.IntN(n-1)
			parts := []ref.Value{recList(recs[:cut]), recList(recs[cut:])}
			gk := evalReal(fk, []value.Value{bridge.ToReal(ref.NewList(parts...), va), value.Float(start), value.Float(size), value.Int(count)})
			if gk.Err != nil {
				c.Violation("collect-fails", fmt.Sprintf("collecting kept binnings fails: %v (%s)", gk.Err, desc), map[string]any{"case": desc})
				return
			}
			if five, ok := listOf(gk.Val); ok && len(five) == 5 {
				if ok, d := realEqual(five[0], five[1], false, ""); !ok {
					c.Violation("collect-twice-differs", fmt.Sprintf("collectBinning over the same binnings gives different totals: %s (%s, cut %d)", d, desc, cut), map[string]any{"case": desc, "diff": d})
					return
				}
				if ok, d := realEqual(five[2], five[3], false, ""); !ok {
					c.Violation("collect-changes-part", fmt.Sprintf("the binning of the first part changed when it was collected: %s (%s, cut %d)", d, desc, cut), map[string]any{"case": desc, "diff": d})
					return
				}
				if ok, d := realEqual(five[3], five[4], false, ""); !ok {
					c.Violation("collect-changes-part", fmt.Sprintf("collecting the first part alone differs from its binning: %s (%s, cut %d)", d, desc, cut), map[string]any{"case": desc, "diff": d})
					return
				}
				c.Count("kept_binnings_checked", 1)
			}
		}
		if n <= 8 {
			for mask := 0; mask < nsplit; mask++ {
				if !trySplit(mask) {
					return
				}
			}
		} else {
			for k := 0; k < 12; k++ {
				if !trySplit(r.IntN(1 << 30)) {
					return
				}
			}
		}
	} else {
		f, err := c20Func("l.binning2d(s,z,c,s2,z2,c2,e->e.x,e->e.y,e->e.v)", "l", "s", "z", "c", "s2", "z2", "c2")
		if err != nil {
			c.Violation("binning-generate", err.Error(), nil)
			return
		}
		args := []value.Value{value.Float(start), value.Float(size), value.Int(count), value.Float(ystart), value.Float(ysize), value.Int(ycount)}
		got := evalReal(f, append([]value.Value{whole}, args...))
		desc += fmt.Sprintf(" y: start=%v size=%v count=%d", ystart, ysize, ycount)
		if got.Err != nil {
			c.Violation("binning-fails", fmt.Sprintf("binning2d fails: %v (%s)", got.Err, desc), map[string]any{"case": desc})
			return
		}
		want := make([][]float64, count+2)
		for i := range want {
			want[i] = make([]float64, ycount+2)
		}
		total := 0.0
		for _, rc := range recs {
			i, j := binIndex(rc.x, start, size, count), binIndex(rc.y, ystart, ysize, ycount)
			want[i][j] += rc.v
			total += rc.v
			if i == 0 || i == count+1 || j == 0 || j == ycount+1 {
				edge = true
			}
		}
		m, ok := got.Val.(value.Map)
		if !ok {
			c.Violation("binning-shape", "2d result is not a map: "+desc, nil)
			return
		}
		yv, _ := m.Get("yDescr")
		vv, _ := m.Get("values")
		yd, ok1 := listOf(yv)
		rows, ok2 := listOf(vv)
		if !ok1 || !ok2 || len(yd) != ycount+2 || len(rows) != count+2 {
			c.Violation("binning-shape", fmt.Sprintf("2d result has %d y descriptions / %d rows: %s", len(yd), len(rows), desc), map[string]any{"case": desc})
			return
		}
		for j := range yd {
			if why := checkDescr(yd[j], j, ystart, ysize, ycount); why != "" {
				c.Violation("bin-description", "y axis: "+why+" ("+desc+")", map[string]any{"case": desc})
				return
			}
		}
		sum := 0.0
		for i := range rows {
			rm, ok := rows[i].(value.Map)
			if !ok {
				c.Violation("binning-shape", "2d row is not a map: "+desc, nil)
				return
			}
			xd, _ := rm.Get("xd")
			if why := checkDescr(xd, i, start, size, count); why != "" {
				c.Violation("bin-description", "x axis: "+why+" ("+desc+")", map[string]any{"case": desc})
				return
			}
			rv, _ := rm.Get("row")
			row, ok := listOf(rv)
			if !ok || len(row) != ycount+2 {
				c.Violation("binning-shape", fmt.Sprintf("2d row %d has %d cells: %s", i, len(row), desc), map[string]any{"case": desc})
				return
			}
			for j := range row {
				g, ok := getF(row[j])
				if !ok || g != want[i][j] {
					c.Violation("bin-value", fmt.Sprintf("2d bin (%d,%d) holds %v, statement gives %v (%s)", i, j, row[j], want[i][j], desc), map[string]any{"case": desc})
					return
				}
				sum += g
				if g != 0 {
					nonEmpty++
				}
			}
		}
		if sum != total {
			c.Violation("mass-not-conserved", fmt.Sprintf("2d bins sum to %v, values sum to %v (%s)", sum, total, desc), map[string]any{"case": desc})
			return
		}
		fc, err := c20Func("p.map(q->q.binning2d(s,z,c,s2,z2,c2,e->e.x,e->e.y,e->e.v)).collectBinning()", "p", "s", "z", "c", "s2", "z2", "c2")
		if err != nil {
			c.Violation("binning-generate", err.Error(), nil)
			return
		}
		for k := 0; k < 6; k++ {
			var parts []ref.Value
			cur := []c20rec{}
			for i, rc := range recs {
				cur = append(cur, rc)
				if i < n-1 && r.IntN(3) == 0 {
					parts = append(parts, recList(cur))
					cur = []c20rec{}
				}
			}
			parts = append(parts, recList(cur))
			gp := evalReal(fc, append([]value.Value{bridge.ToReal(ref.NewList(parts...), va)}, args...))
			if gp.Err != nil {
				c.Violation("collect-fails", fmt.Sprintf("2d collectBinning fails: %v (%s)", gp.Err, desc), map[string]any{"case": desc})
				return
			}
			if ok, d := realEqual(got.Val, gp.Val, false, ""); !ok {
				c.Violation("not-additive", fmt.Sprintf("2d collectBinning over %d parts differs from the binning of the whole: %s (%s)", len(parts), d, desc), map[string]any{"case": desc, "diff": d})
				return
			}
			c.Count("splittings_checked", 1)
		}
	}
	if edge && nonEmpty >= 2 {
		c.NonTrivial(wk.Hash64(desc))
		if c.Index%300 == 0 {
			c.Sample(map[string]any{"case": truncate(desc, 400), "two_dimensional": twoD})
		}
	}
}
