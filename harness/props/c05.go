package props

// C05 — no program can crash the host: every runtime fault is an ordinary error.
// Fault x context x schedule enumeration. Monitors: M-proc (the driver
// attributes a dead worker to the begun case), outcome check (error returned /
// catch value returned / no panic into the caller), M-wd (watchdog).

import (
	"bytes"
	"fmt"
	"runtime"
	"sort"
	"strings"
	"sync"
	"time"

	"github.com/hneemann/parser2/funcGen"
	"github.com/hneemann/parser2/value"

	"verif/bridge"
	"verif/wk"
)

type c05 struct{}

func init() { register("C05", c05{}) }

var c05ops = []string{"|", "&", "=", "!=", "~", "<", ">", "<=", ">=", "+", "-", "<<", ">>", "*", "%", "/", "^"}

// pool of operand / argument spellings (source text) with a class name
var c05pool = [][2]string{
	{"0", "int0"}, {"1", "int"}, {"-1", "negint"}, {"64", "int64"}, {"9223372036854775807", "maxint"}, {"(-9223372036854775807-1)", "minint"},
	{"0.0", "float0"}, {"1.5", "float"}, {"(1/0)", "inf"}, {"(0/0.0)", "nan"},
	{"\"\"", "str0"}, {"\"a\"", "str"}, {"true", "bool"},
	{"[]", "list0"}, {"[1,\"a\"]", "mixedlist"}, {"numbers(3).map(x->x)", "lazylist"},
	{"{}", "map0"}, {"{a:1}", "map"},
	{"(x->x)", "clo1"}, {"((x,y)->x)", "clo2"}, {"(x->boom(x))", "clofail"}, {"(x->hpanic(x))", "clopanic"}, {"(x->\"s\")", "clostr"}, {"((x,y,z)->true)", "clo3"},
}

type c05case struct {
	src    string // program; uses argument a (int) where it wants run-time data
	class  string
	ctx    string
	expect string // "error" (Eval must return an error), "catch" (must return "C"), "any" (value or error, no crash)
	par    bool   // needs a multi-CPU configuration to be meaningful
}

var c05cases []c05case
var c05once sync.Once

func c05Build() {
	add := func(c c05case) { c05cases = append(c05cases, c) }
	// Section A: operator x operand pairs
	for _, op := range c05ops {
		for _, x := range c05pool {
			for _, y := range c05pool {
				e := "(" + x[0] + op + y[0] + ")"
				add(c05case{src: e, class: "op" + op + ":" + x[1] + "," + y[1], ctx: "top", expect: "any"})
			}
		}
	}
	for _, u := range []string{"-", "!"} {
		for _, x := range c05pool {
			add(c05case{src: u + x[0], class: "unary" + u + ":" + x[1], ctx: "top", expect: "any"})
		}
	}
	// index / member / call on every value
	for _, x := range c05pool {
		for _, i := range []string{"0", "-1", "5", "\"a\"", "1.5", "9223372036854775807"} {
			add(c05case{src: x[0] + "[" + i + "]", class: "index:" + x[1], ctx: "top", expect: "any"})
		}
		add(c05case{src: x[0] + ".a", class: "member:" + x[1], ctx: "top", expect: "any"})
		add(c05case{src: x[0] + "()", class: "call0:" + x[1], ctx: "top", expect: "any"})
		add(c05case{src: x[0] + "(1)", class: "call1:" + x[1], ctx: "top", expect: "any"})
		add(c05case{src: x[0] + "(1,2,3,4)", class: "call4:" + x[1], ctx: "top", expect: "any"})
		add(c05case{src: "if " + x[0] + " then 1 else 2", class: "if:" + x[1], ctx: "top", expect: "any"})
		add(c05case{src: "switch " + x[0] + " case 1: 1 case \"a\": 2 case [1]: 3 default 4", class: "switch:" + x[1], ctx: "top", expect: "any"})
	}
	// Section B: every documented built-in x argument tuples
	recv := map[string][]string{
		"list": {"[]", "[1]", "[1,\"a\",[2]]", "numbers(20).map(x->x)", "[{a:1},{a:\"x\"}]", "[3,1,2]"}, "map": {"{}", "{a:1}", "{a:1,b:[1]}", "{a:1}.put(\"b\",2)"},
		"string": {"\"\"", "\"abc\"", "\"日本\""}, "int": {"0", "-5"}, "float": {"1.5"}, "bool": {"true"}, "closure": {"(x->x)", "((x,y)->x)"},
	}
	g := value.New()
	for _, td := range g.GetDocumentation() {
		for _, f := range td.Functions {
			nargs := 0
			if f.Description != nil {
				nargs = len(f.Description.Args)
			}
			var tuples [][]string
			switch {
			case nargs == 0:
				tuples = [][]string{{}}
			case nargs == 1:
				for _, x := range c05pool {
					tuples = append(tuples, []string{x[0]})
				}
			default:
				// pairs exhaustive on a sub-pool, the rest filled with a fixed value
				sub := []int{0, 2, 3, 6, 10, 12, 13, 16, 18, 19, 20, 21, 22, 23}
				for _, i := range sub {
					for _, j := range sub {
						t := []string{c05pool[i][0], c05pool[j][0]}
						for k := 2; k < nargs; k++ {
							t = append(t, c05pool[sub[(i+j+k)%len(sub)]][0])
						}
						tuples = append(tuples, t)
					}
				}
			}
			tuples = append(tuples, []string{}, []string{"1", "2", "3", "4", "5", "6", "7", "8", "9", "10", "11"})
			for _, t := range tuples {
				if td.Name == "global" {
					if f.Name == "random" || f.Name == "randomConst" {
						if len(t) > 0 && strings.Contains(t[0], "9223372036854775807") {
							continue
						}
					}
					add(c05case{src: f.Name + "(" + strings.Join(t, ",") + ")", class: "global." + f.Name, ctx: "top", expect: "any"})
					continue
				}
				for _, r := range recv[td.Name] {
					add(c05case{src: r + "." + f.Name + "(" + strings.Join(t, ",") + ")", class: td.Name + "." + f.Name, ctx: "top", expect: "any"})
				}
			}
		}
	}
	// Section C: fault x context
	faults := [][2]string{
		{"x%0", "mod0"}, {"1<<(0-1-x*0)", "negshift"}, {"x=\"a\"", "incomparable-eq"}, {"x<\"a\"", "incomparable-lt"}, {"x~[\"a\",1]", "incomparable-member"},
		{"switch x case \"a\": 1 default 2", "incomparable-switch"}, {"[1][x+5]", "index-range"}, {"[1][0-1-x*0]", "index-negative"}, {"{a:1}.b", "missing-key"},
		{"boom(x)", "host-error"}, {"hpanic(x)", "host-panic"}, {"throw(\"t\")", "throw"}, {"x+true", "type-error"}, {"(p->p)(x,x)", "wrong-arity"},
		{"random(0*x)", "random0"}, {"[x].combineN(0,l->l).size()", "combineN0"}, {"[x].iirApply({initial:p->p}).size()", "iirApply-missing"}, {"[].first()", "empty-first"}, {"[].reduce((p,q)->p)", "empty-reduce"},
		{"[x,x,x].orderLess((p,q)->1).size()", "callback-wrong-type"}, {"[x,x].order(p->[p]).size()", "order-incomparable"}, {"\"s\".cut(\"a\",1)", "method-arg-type"},
		{"[func f(n) f(n+1)+1; f(x)][0]", "runaway-recursion"}, {"[func f(n) [n].map(p->f(p+1)).first(); f(x)][0]", "runaway-recursion-through-map"},
		{"[func f(n) numbers(1).map(p->f(n+1))[0]; f(x)][0]", "runaway-recursion-through-index"}, {"[func f(n) [n].accept(p->f(p+1)>0).size(); f(x)][0]", "runaway-recursion-through-accept"},
		{"[func f(n) [n].multiUse({a:l->l.map(p->f(p+1)).sum()}); f(x)][0]", "runaway-recursion-through-multiUse"},
		{"[func f(n) [n].merge([1],(p,q)->f(n+1)).size(); f(x)][0]", "runaway-recursion-through-merge"},
		{"[func f(n) [n].reduce((p,q)->p)+[n,n].reduce((p,q)->f(n+1)); f(x)][0]", "runaway-recursion-through-reduce"},
		// recursion through every way a lazy list is turned into text or compared
		{"[func f(n) sprintf(\"%v\",[n].map(p->f(p+1))).len(); f(x)][0]", "runaway-recursion-through-sprintf"},
		{"[func f(n) sprintf(\"%v\",{k:[n].map(p->f(p+1))}).len(); f(x)][0]", "runaway-recursion-through-sprintf-map"},
		{"[func f(n) sprintf([n].map(p->f(p+1))).len(); f(x)][0]", "runaway-recursion-through-sprintf-1"},
		{"[func f(n) string([n].map(p->f(p+1))).len(); f(x)][0]", "runaway-recursion-through-string"},
		{"[func f(n) (\"a\"+[n].map(p->f(p+1))).len(); f(x)][0]", "runaway-recursion-through-concat"},
		{"[func f(n) {k:[n].map(p->f(p+1))}.string().len(); f(x)][0]", "runaway-recursion-through-map-string"},
		{"[func f(n) if [n].map(p->f(p+1))=[1] then 1 else 2; f(x)][0]", "runaway-recursion-through-equal"},
		{"[func f(n) if 1~[n].map(p->f(p+1)) then 1 else 2; f(x)][0]", "runaway-recursion-through-member"},
		{"[func f(n) [n].map(p->f(p+1)).eval().size(); f(x)][0]", "runaway-recursion-through-eval"},
		{"[func f(n) [n].map(p->f(p+1)).order().size(); f(x)][0]", "runaway-recursion-through-order"},
		{"[func f(n) [n].map(p->f(p+1)).groupByInt(q->q).size(); f(x)][0]", "runaway-recursion-through-group"},
		{"[func f(n) {k:n}.map((k,v)->f(v+1)).k; f(x)][0]", "runaway-recursion-through-map-map"},
	}
	for _, f := range faults {
		F := func(arg string) string { return "(" + strings.ReplaceAll(f[0], "x", arg) + ")" }
		// careful: replace only the variable x: the fault texts use x only as that variable
		heavy := strings.HasPrefix(f[1], "runaway")
		ctxs := [][3]string{
			{"top", F("a"), ""},
			{"closure", "(y->" + F("y") + ")(a)", ""},
			{"let-closure", "let c=y->" + F("y") + "; c(a)", ""},
			{"map-field", "{m:y->" + F("y") + "}.m(a)", ""},
			{"seq-map", "[a,a].map(y->" + F("y") + ").size()", ""},
			{"seq-accept", "[a,a].accept(y->" + F("y") + "=1).size()", ""},
			{"reduce-callback", "[a,a,a].reduce((p,q)->" + F("q") + ")", ""},
			{"upstream-of-map", "[a,a].number((i,y)->" + F("y") + ").map(y->y).size()", ""},
			{"merge-operand", "[a,a].map(y->" + F("y") + ").merge([1,2],(p,q)->p<q).size()", ""},
			{"merge-less", "[a,a].merge([1,2],(p,q)->" + F("p") + "<q).size()", ""},
			{"multiUse-consumer", "[a,a].multiUse({u:l->l.map(y->" + F("y") + ").sum(),v:l->l.size()})", ""},
			{"multiUse-source", "[a,a].map(y->" + F("y") + ").multiUse({u:l->l.size(),v:l->l.size()})", ""},
			{"cross", "[a].cross([a],(p,q)->" + F("q") + ").size()", ""},
			{"string-concat-forces", "\"s\"+[a].map(y->" + F("y") + ")", ""},
			// every kind of lazy stage as operand of merge / source or result of multiUse (their closures run on
			// goroutines started by these operations)
			{"merge-operand-number", "[a,a].number((i,y)->" + F("y") + ").merge([1,2],(p,q)->p<q).size()", ""},
			{"merge-operand-iir", "[a,a].iir(y->" + F("y") + ",(y,l)->l).merge([1,2],(p,q)->p<q).size()", ""},
			{"merge-operand-combine", "[a,a,a].combine((p,q)->" + F("p") + ").merge([1,2],(p,q)->p<q).size()", ""},
			{"merge-operand-fsm", "[a,a].fsm((s,y)->goto(" + F("y") + ")).merge([1,2],(p,q)->1<2).size()", ""},
			{"merge-second-operand-iir", "[1,2].merge([a,a].iir(y->y,(y,l)->" + F("y") + "),(p,q)->p<q).size()", ""},
			{"multiUse-source-iir", "[a,a].iir(y->" + F("y") + ",(y,l)->l).multiUse({u:l->l.size(),v:l->l.size()})", ""},
			{"multiUse-lazy-result", "[a,a].multiUse({u:l->l.combine((p,q)->" + F("p") + "),v:l->l.size()}).u.size()", ""},
			{"multiUse-lazy-result-in-list", "[a,a].multiUse({u:l->[l.number((i,y)->" + F("y") + ")],v:l->l.size()}).u[0].size()", ""},
			// closures called while a wrapped map (merged, put, replaced) is iterated; a later entry succeeds
			{"merged-map-map", "({k:a,j:a}+{z:1}).map((k,v)->if k=\"z\" then 1 else " + F("v") + ").size()", ""},
			{"merged-map-accept", "({k:a}+{z:1}).accept((k,v)->if k=\"z\" then true else " + F("v") + "=1).size()", ""},
			{"put-map-map", "{k:a}.put(\"z\",1).map((k,v)->if k=\"z\" then 1 else " + F("v") + ").size()", ""},
			{"replaced-map-map", "{k:a,z:1}.replace(m->{z:2}).map((k,v)->if k=\"z\" then 1 else " + F("v") + ").size()", ""},
			{"evaluated-map-map", "{k:a,z:1}.eval().map((k,v)->if k=\"z\" then 1 else " + F("v") + ").size()", ""},
			{"map-combine", "{k:a,z:1}.combine({k:1,z:2},(p,q)->if q=2 then 1 else " + F("p") + ").size()", ""},
		}
		if !heavy {
			ctxs = append(ctxs,
				[3]string{"par-map", "numbers(40).map(y->if slow(y)>=20 then " + F("y") + " else y).size()", "par"},
				[3]string{"par-accept", "numbers(40).accept(y->if slow(y)>=20 then " + F("y") + "=1 else true).size()", "par"},
				[3]string{"par-map-downstream", "numbers(40).map(y->slow(y)).mapReduce(0,(s,y)->if y>=20 then " + F("y") + " else s+y)", "par"},
				[3]string{"par-map-upstream", "numbers(40).number((i,y)->if i>=20 then " + F("y") + " else y).map(y->slow(y)).size()", "par"},
				[3]string{"par-map-nested", "numbers(40).map(y->if slow(y)>=20 then [y].map(z->" + F("z") + ").first() else y).size()", "par"},
				[3]string{"par-merge", "numbers(40).map(y->if slow(y)>=20 then " + F("y") + " else y).merge(numbers(40).map(y->slow(y)),(p,q)->p<q).size()", "par"},
			)
		}
		for ci, cx := range ctxs {
			if heavy && ci >= 14 && f[1] != "runaway-recursion" {
				// the slow recursion shapes run in the first 14 contexts only
				continue
			}
			add(c05case{src: cx[1], class: f[1], ctx: cx[0], expect: "error", par: cx[2] == "par"})
			add(c05case{src: "try " + cx[1] + " catch \"C\"", class: f[1], ctx: "try+" + cx[0], expect: "catch", par: cx[2] == "par"})
			add(c05case{src: "[1].map(w->try " + cx[1] + " catch \"C\").first()", class: f[1], ctx: "try-in-closure+" + cx[0], expect: "catch", par: cx[2] == "par"})
		}
	}
	// one unevaluated lazy list reached by several goroutines of ONE evaluation (workers of a parallel map,
	// multiUse consumers): whoever loses the race to evaluate it must not bring the process down
	for _, n := range []int{1000, 300000} {
		add(c05case{src: fmt.Sprintf("[let l=numbers(%d).map(x->x+a); numbers(40).map(y->slow(y)+l.size()).sum()][0]", n), class: "shared-lazy-list", ctx: "parallel-map-workers", expect: "any", par: true})
		add(c05case{src: fmt.Sprintf("numbers(6).map(i->numbers(%d).map(x->x+i)).multiUse({u:l->l.map(q->q.size()).sum(), v:l->l.map(q->q.size()).sum(), w:l->l.map(q->q.size()).sum()}).u", n), class: "shared-lazy-list", ctx: "multiUse-consumers", expect: "any"})
		add(c05case{src: fmt.Sprintf("[let l=numbers(%d).map(x->x+a); [1,2,3].multiUse({u:q->l.size()+q.size(), v:q->l.sum()+q.size(), w:q->l.size()})][0].u", n), class: "shared-lazy-list", ctx: "multiUse-closures", expect: "any"})
		add(c05case{src: fmt.Sprintf("[let l=numbers(%d).map(x->x+a); numbers(40).accept(y->slow(y)>=0 & l.size()>0).merge(numbers(40).map(y->slow(y)+l.size()*0),(p,q)->p<q).size()][0]", n), class: "shared-lazy-list", ctx: "merge-sources", expect: "any", par: true})
	}
	// deep but finite recursion must succeed or fail cleanly
	for _, n := range []int{100, 2000, 9000, 20000} {
		add(c05case{src: fmt.Sprintf("[func f(n) if n<=0 then 0 else f(n-1)+1; f(%d+a*0)][0]", n), class: "finite-recursion", ctx: fmt.Sprintf("depth-%d", n), expect: "any"})
		add(c05case{src: fmt.Sprintf("[func f(n) if n<=0 then 0 else [n].map(p->f(p-1)).first()+1; f(%d+a*0)][0]", n/10), class: "finite-recursion-through-map", ctx: fmt.Sprintf("depth-%d", n/10), expect: "any"})
	}
}

func (c05) Plan(tier string) wk.Plan {
	c05once.Do(c05Build)
	cfgs := []wk.Config{
		{Name: "seq", CPUs: 1, Shards: 8},
		{Name: "par4", CPUs: 4, Shards: 1},
		// one scheduler thread on several CPUs: the dependency still starts its workers (it looks at NumCPU)
		{Name: "par4-gmp1", CPUs: 4, GoMaxProcs: 1, Shards: 1},
	}
	if tier == "thorough" {
		cfgs = []wk.Config{
			{Name: "seq", CPUs: 1, Shards: 8},
			{Name: "par2", CPUs: 2, Shards: 1},
			{Name: "par4", CPUs: 4, GoMaxProcs: 2, Shards: 1},
			{Name: "par16", CPUs: 16, Shards: 1},
			{Name: "par16-gmp4", CPUs: 16, GoMaxProcs: 4, Shards: 1},
		}
	}
	return wk.Plan{
		Level: "fault_enumeration", Cases: int64(len(c05cases)), Chunk: 100, Configs: cfgs, CaseBudget: 30, PerCase: true, HangIsViolation: true,
		Rule:          "enumeration, not sampling: (A) every binary operator x every ordered pair of a 24-value boundary pool (ints incl. 0, -1, 64, min/max int; floats incl. 0, Inf, NaN; strings; bool; empty/mixed/lazy lists; maps; closures of arity 1-3, failing, panicking, wrong result type), both unary operators, index/member/call/if/switch on every pool value; (B) every method and function listed by GetDocumentation() at run time x argument tuples (arity <= 1 exhaustive over the pool, arity >= 2 all pairs of a 14-value sub-pool, plus no and too many arguments) x receivers per type; (C) 41 fault sources (modulo 0, negative shift, incomparable =,<,~,switch, index range, missing key, failing and panicking host function, throw, type error, wrong arity, random(0), combineN(0), iirApply without filter, empty reductions, callback of wrong type, runaway recursion plain and through map/accept/index/multiUse/merge/reduce/sprintf/string/concatenation/map string/=/~/eval/order/group/map.map) x 28 sequential contexts (top level, closures, map-field closure, sequential map/accept, reduce callback, upstream of a map, merge operands built from map/number/iir/combine/fsm stages and the less function, multiUse consumer, source and lazy results, cross, string concatenation, closures called while merged/put/replaced/evaluated maps are iterated) + 6 forced-parallel contexts (fault at element >= 20 of a map/accept whose closure sleeps 300us: on a worker, downstream on the collector, upstream, nested, merge of parallel stages), each plain (Eval must return an error), inside try/catch (catch value must be returned) and inside try within a stage closure. Sections A and B run on one CPU; section C under every launch configuration (CPU masks x GOMAXPROCS). Refuting events: worker process dies, panic reaches the caller of Eval, no error for a fault, catch value not delivered, watchdog. Non-trivial = case whose program was executed (Generate succeeded); distinct by (configuration, program).",
		Floor:         3000,
		FloorCounters: map[string]int64{"faults_on_other_goroutine": 20},
		Assumptions:   []string{"a lazy list returned to the host and forced there is outside the evaluation call; programs force their results inside (size/sum/string)", "parallel contexts rely on the dependency's timing switch (>200us per element, NumCPU>1); the evidence counts on how many goroutines faults were actually observed"},
	}
}

type c05state struct {
	g       *value.FunctionGenerator
	mainGID int64
	other   int64
	mu      sync.Mutex
}

var c05st *c05state

func gid() int64 {
	b := make([]byte, 64)
	b = b[:runtime.Stack(b, false)]
	b = bytes.TrimPrefix(b, []byte("goroutine "))
	i := bytes.IndexByte(b, ' ')
	var n int64
	fmt.Sscan(string(b[:i]), &n)
	return n
}

func c05State() *c05state {
	if c05st != nil {
		return c05st
	}
	s := &c05state{}
	note := func() {
		if g := gid(); g != s.mainGID {
			s.mu.Lock()
			s.other++
			s.mu.Unlock()
		}
	}
	s.g = value.New()
	s.g.AddStaticFunction("boom", funcGen.Function[value.Value]{Func: func(st funcGen.Stack[value.Value], cs []value.Value) (value.Value, error) {
		note()
		return nil, fmt.Errorf("boom")
	}, Args: 1, IsPure: false}.SetDescription("x", "fails"))
	s.g.AddStaticFunction("hpanic", funcGen.Function[value.Value]{Func: func(st funcGen.Stack[value.Value], cs []value.Value) (value.Value, error) {
		note()
		panic("host function panics")
	}, Args: 1, IsPure: false}.SetDescription("x", "panics"))
	s.g.AddStaticFunction("slow", funcGen.Function[value.Value]{Func: func(st funcGen.Stack[value.Value], cs []value.Value) (value.Value, error) {
		time.Sleep(300 * time.Microsecond)
		return st.Get(0), nil
	}, Args: 1, IsPure: false}.SetDescription("x", "sleeps"))
	c05st = s
	return s
}

func (c05) Run(c *wk.Case) {
	c05once.Do(c05Build)
	cs := c05cases[c.Index]
	sectionC := cs.expect != "any" || strings.HasPrefix(cs.class, "finite-recursion") || cs.class == "shared-lazy-list"
	if c.Config != "seq" && !sectionC {
		return // sections A and B are schedule independent
	}
	if cs.par && c.Config == "seq" {
		return // needs NumCPU > 1 to reach the parallel path (the sequential form of the context is a separate case)
	}
	s := c05State()
	s.mainGID = gid()
	c.Logf("[%s | %s | %s] %s", cs.class, cs.ctx, cs.expect, cs.src)
	f, err, pan := generate(s.g, cs.src, []string{"a"})
	if pan != nil {
		c.Violation("generate-panics:"+cs.class, fmt.Sprintf("Generate(%q) panics: %v", cs.src, pan), map[string]any{"src": cs.src})
		return
	}
	if err != nil {
		// misuse detected when the function is generated (wrong number of arguments of a static function, ...)
		c.Count("rejected_by_generate", 1)
		if cs.expect == "catch" || cs.expect == "error" {
			c.Violation("fault-program-rejected:"+cs.class, fmt.Sprintf("Generate(%q) fails: %v", cs.src, err), map[string]any{"src": cs.src})
		}
		return
	}
	var got bridge.Outcome
	for rep := 0; rep < 2; rep++ {
		if cs.expect == "any" {
			// only the evaluation call itself is claimed: a lazy result (possibly huge) is not forced by the host
			got = evalRealNoForce(f, []value.Value{value.Int(int64(rep))})
		} else {
			got = evalReal(f, []value.Value{value.Int(int64(rep))})
		}
		if got.Panic != nil {
			c.Violation("panic-reaches-caller:"+cs.class, fmt.Sprintf("[%s in %s] Eval of %q panics into the caller: %v", cs.class, cs.ctx, cs.src, got.Panic), map[string]any{"src": cs.src, "class": cs.class, "context": cs.ctx})
			return
		}
		switch cs.expect {
		case "error":
			if got.Err == nil {
				c.Violation("fault-without-error:"+cs.class, fmt.Sprintf("[%s in %s] %q returns %s and no error", cs.class, cs.ctx, cs.src, bridge.Describe(got.Val)), map[string]any{"src": cs.src, "class": cs.class, "context": cs.ctx})
				return
			}
		case "catch":
			if v, ok := got.Val.(value.String); got.Err != nil || !ok || v != "C" {
				c.Violation("fault-not-catchable:"+cs.class, fmt.Sprintf("[%s in %s] %q returns %s err=%v instead of the catch value", cs.class, cs.ctx, cs.src, bridge.Describe(got.Val), got.Err), map[string]any{"src": cs.src, "class": cs.class, "context": cs.ctx})
				return
			}
		}
	}
	// no goroutine may still be evaluating (a late panic would kill the process between cases): settle briefly
	if strings.Contains(cs.src, "merge") || strings.Contains(cs.src, "multiUse") || cs.par {
		time.Sleep(2 * time.Millisecond)
	}
	s.mu.Lock()
	o := s.other
	s.other = 0
	s.mu.Unlock()
	c.Count("faults_on_other_goroutine", o)
	if sectionC {
		c.Count("ctx_"+cs.ctx, 1)
	}
	if got.Err != nil {
		c.Count("outcome_error", 1)
	} else {
		c.Count("outcome_value", 1)
	}
	c.NonTrivial(wk.Hash64(c.Config, cs.src))
	if c.Index%900 == 0 {
		c.Sample(map[string]any{"class": cs.class, "context": cs.ctx, "expect": cs.expect, "program": cs.src, "config": c.Config})
	}
}

var _ = sort.Strings
