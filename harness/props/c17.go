package props

// C17 — JSON export is always valid JSON that preserves structure and text.
// Monitor: M-rt — round trip through encoding/json (token stream, so duplicate
// keys are seen) and structural comparison with the source value tree.

import (
	"bytes"
	"encoding/json"
	"fmt"
	"io"
	"sort"
	"strings"
	"unicode/utf8"

	"github.com/hneemann/parser2/funcGen"
	"github.com/hneemann/parser2/value"
	"github.com/hneemann/parser2/value/export"

	"verif/bridge"
	"verif/gen"
	"verif/ref"
	"verif/wk"
)

type c17 struct{}

func init() { register("C17", c17{}) }

func (c17) Plan(tier string) wk.Plan {
	n := int64(60000)
	if tier == "thorough" {
		n = 4_000_000
	}
	return wk.Plan{
		Level: "exploration", Cases: n, Chunk: 1000, Configs: single("seq", 16), CaseBudget: 20,
		Rule:        "case = one generated value tree (depth <= 5; lists eager or lazy; maps as literal storage, hash map, put chain, merge or replace wrapper; ints, floats, bools; strings and keys built from the hostile classes backslash, quote, U+0000-U+001F, U+007F, U+2028/2029, U+D7FF/U+E000, non-BMP, markup look-alikes, plus random runes), exported with export.JSON(); the output must be accepted by encoding/json (token stream) and decode to the same structure: arrays in order, objects with exactly the source key set and no duplicates, every scalar the JSON string of its string form. Non-trivial = the tree contains a container and at least one string/key with a character that needs escaping; distinct by exported document.",
		Floor:       500,
		Assumptions: []string{"encoding/json is the standard parser the property refers to", "strings are valid UTF-8 (the property's domain)"},
	}
}

func needsEscape(s string) bool {
	for _, c := range s {
		if c < 0x20 || c == '"' || c == '\\' {
			return true
		}
	}
	return false
}

func treeHas(v ref.Value, f func(string) bool) bool {
	switch t := v.(type) {
	case string:
		return f(t)
	case *ref.List:
		items, _ := ref.NewInterp().Force(t)
		for _, it := range items {
			if treeHas(it, f) {
				return true
			}
		}
	case *ref.Map:
		for i, k := range t.Keys {
			if f(k) || treeHas(t.Vals[i], f) {
				return true
			}
		}
	}
	return false
}

// jsonCheck walks the token stream against the expected tree.
func jsonCheck(dec *json.Decoder, want ref.Value, path string) error {
	tok, err := dec.Token()
	if err != nil {
		return fmt.Errorf("%s: %v", path, err)
	}
	in := ref.NewInterp()
	switch w := want.(type) {
	case *ref.List:
		if d, ok := tok.(json.Delim); !ok || d != '[' {
			return fmt.Errorf("%s: expected array, found %v", path, tok)
		}
		items, _ := in.Force(w)
		for i, it := range items {
			if !dec.More() {
				return fmt.Errorf("%s: array ends after %d of %d elements", path, i, len(items))
			}
			if err := jsonCheck(dec, it, fmt.Sprintf("%s[%d]", path, i)); err != nil {
				return err
			}
		}
		if dec.More() {
			return fmt.Errorf("%s: array has more than %d elements", path, len(items))
		}
		_, err := dec.Token()
		return err
	case *ref.Map:
		if d, ok := tok.(json.Delim); !ok || d != '{' {
			return fmt.Errorf("%s: expected object, found %v", path, tok)
		}
		seen := map[string]bool{}
		for dec.More() {
			kt, err := dec.Token()
			if err != nil {
				return fmt.Errorf("%s: %v", path, err)
			}
			k, ok := kt.(string)
			if !ok {
				return fmt.Errorf("%s: key is not a string: %v", path, kt)
			}
			if seen[k] {
				return fmt.Errorf("%s: duplicate key %q", path, k)
			}
			seen[k] = true
			wv, has := w.Get(k)
			if !has {
				return fmt.Errorf("%s: object has key %q which the map does not have", path, k)
			}
			if err := jsonCheck(dec, wv, path+"."+k); err != nil {
				return err
			}
		}
		for _, k := range w.Keys {
			if !seen[k] {
				return fmt.Errorf("%s: key %q of the map is missing in the object", path, k)
			}
		}
		_, err := dec.Token()
		return err
	default:
		s, e := in.ToString(want)
		if e != nil {
			return fmt.Errorf("%s: no string form", path)
		}
		got, ok := tok.(string)
		if !ok {
			return fmt.Errorf("%s: scalar is not exported as a JSON string: %v", path, tok)
		}
		if got != s {
			return fmt.Errorf("%s: string %q decodes as %q", path, s, got)
		}
		return nil
	}
}

func (c17) Run(c *wk.Case) {
	tree := gen.RandTree(c.Rng, gen.TreeOpts{}, 0)
	va := bridge.Variant{LazyLists: c.Rng.IntN(2) == 0, MapKind: c.Rng.IntN(5)}
	real := bridge.ToReal(tree, va)
	var out []byte
	var err error
	var pan any
	func() {
		defer func() {
			if r := recover(); r != nil {
				pan = r
			}
		}()
		ex := export.JSON()
		err = export.Export(funcGen.NewEmptyStack[value.Value](), real, ex)
		out = ex.Result()
	}()
	desc := func() string { return ref.Describe(tree) }
	if pan != nil {
		c.Violation("json-export-panics", fmt.Sprintf("export of %s panics: %v", desc(), pan), map[string]any{"value": desc()})
		return
	}
	if err != nil {
		c.Violation("json-export-fails", fmt.Sprintf("export of %s fails: %v", desc(), err), map[string]any{"value": desc()})
		return
	}
	if !utf8.Valid(out) {
		c.Violation("json-not-utf8", fmt.Sprintf("export of %s is not valid UTF-8", desc()), map[string]any{"value": desc(), "json": string(out)})
		return
	}
	if !json.Valid(out) {
		c.Violation("json-invalid", fmt.Sprintf("encoding/json rejects the export of %s: %q", desc(), truncate(string(out), 400)), map[string]any{"value": desc(), "json": string(out)})
		return
	}
	dec := json.NewDecoder(bytes.NewReader(out))
	if e := jsonCheck(dec, tree, "$"); e != nil {
		c.Violation("json-round-trip", fmt.Sprintf("export of %s: %v (document %q)", desc(), e, truncate(string(out), 400)), map[string]any{"value": desc(), "json": string(out), "error": e.Error()})
		return
	}
	if _, e := dec.Token(); e != io.EOF {
		c.Violation("json-trailing", fmt.Sprintf("export of %s has trailing content", desc()), map[string]any{"value": desc(), "json": string(out)})
		return
	}
	c.Count("documents_bytes", int64(len(out)))
	if treeHas(tree, needsEscape) {
		c.NonTrivial(wk.Hash64(string(out)))
		if c.Index%500 == 0 {
			c.Sample(map[string]any{"value": truncate(desc(), 300), "json": truncate(string(out), 300), "map_representation": va.MapKind, "lazy_lists": va.LazyLists})
		}
	}
}

func truncate(s string, n int) string {
	if len(s) > n {
		return s[:n] + "..."
	}
	return s
}

var _ = sort.Strings
var _ = strings.Contains
