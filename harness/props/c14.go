package props

// C14 — equality and ordering operators obey their algebraic laws.
// Monitor: M-law over the recorded outcomes of operator programs evaluated
// through Generate on argument values (all pairs of a value pool, sampled
// triples), plus M-ref for the individual outcomes.

import (
	"fmt"
	"math"
	"math/rand/v2"
	"strings"

	"github.com/hneemann/parser2/funcGen"
	"github.com/hneemann/parser2/listMap"
	"github.com/hneemann/parser2/value"

	"verif/bridge"
	"verif/ref"
	"verif/wk"
)

type c14 struct{}

func init() { register("C14", c14{}) }

type c14val struct {
	ref  ref.Value
	real value.Value
	desc string
	kind string
}

func c14Pool(seed int64, tier string) []c14val {
	r := rand.New(rand.NewPCG(uint64(seed), 14))
	var pool []c14val
	add := func(v ref.Value, va bridge.Variant) {
		kind := ref.TypeName(v)
		pool = append(pool, c14val{v, bridge.ToReal(v, va), ref.Describe(v), kind})
	}
	std := bridge.Variant{}
	ints := []int64{0, 1, -1, 2, 3, 7, -7, 100, 1 << 31, -(1 << 31), 1<<53 - 1, -(1<<53 - 1), 1 << 52, -2, -3, -100, -8}
	// floats: both signs of zero, fractions on both sides of every small int (negative ones too: truncation
	// and floor differ there), direct neighbours of ints, infinities, extremes, the 2^53 neighbourhood
	floats := []float64{0, math.Copysign(0, -1), 1, -1, 2, 0.5, 1.5, 2.0000000000000004, 1.9999999999999998, 3, 7, -7, 100, math.Inf(1), math.Inf(-1), 1e300, -1e300, 5e-324, float64(1 << 53), 9007199254740991, 4503599627370496.5, 1e-9,
		-0.5, -1.5, -2.5, -0.25, -1.0000000000000002, -0.9999999999999999, -2.0000000000000004, -1.9999999999999998, -6.5, -7.5, -99.5, -100.5, 2.5, 6.5, 99.5, -5e-324, -1e-9, -2, -3, -100, 9007199254740994, 9223372036854775807, -9223372036854775808, 1e19, -1e19, math.NaN()}
	strs := []string{"", "a", "b", "ab", "aa", "A", "a ", "é", "日本", "z", "10", "9", "\x00", "a\x00"}
	for _, i := range ints {
		add(i, std)
	}
	for _, f := range floats {
		add(f, std)
	}
	for _, s := range strs {
		add(s, std)
	}
	add(true, std)
	add(false, std)
	extra := 10
	if tier == "thorough" {
		extra = 150
	}
	for k := 0; k < extra; k++ {
		switch r.IntN(3) {
		case 0:
			add(int64(r.IntN(2001)-1000), std)
		case 1:
			add(float64(r.IntN(16001)-8000)/8, std)
		default:
			add(strs[r.IntN(len(strs))]+strs[r.IntN(len(strs))], std)
		}
	}
	// containers in several representations
	L := func(v ...ref.Value) *ref.List { return ref.NewList(v...) }
	lists := []*ref.List{L(math.NaN()), L(int64(1), math.NaN()), L(), L(int64(1)), L(1.0), L(int64(1), int64(2)), L(int64(2), int64(1)), L(int64(1), 2.0), L("a"), L("a", int64(1)), L(int64(1), "a"), L(L()), L(L(int64(1))), L(L(1.0)), L(L(int64(1)), L()), L(true), L(int64(1), int64(2), int64(3)),
		L(ref.MapOf("a", int64(1))), L(ref.MapOf("a", 1.0)), L(int64(1), int64(1)), L("a", "b")}
	for _, l := range lists {
		add(l, bridge.Variant{})
		add(l, bridge.Variant{LazyLists: true})
	}
	maps := []*ref.Map{ref.NewMap(), ref.MapOf("a", int64(1)), ref.MapOf("a", 1.0), ref.MapOf("a", int64(1), "b", int64(2)), ref.MapOf("b", int64(2), "a", int64(1)), ref.MapOf("a", int64(1), "b", "x"),
		ref.MapOf("a", "x", "b", int64(1)), ref.MapOf("a", L(int64(1))), ref.MapOf("a", L(1.0)), ref.MapOf("a", ref.MapOf("b", int64(1))), ref.MapOf("", int64(1)), ref.MapOf("a", int64(2)), ref.MapOf("b", int64(1)),
		ref.MapOf("a", int64(1), "b", int64(2), "c", int64(3))}
	for _, m := range maps {
		for kind := 0; kind < 5; kind++ {
			if kind >= 2 && len(m.Keys) == 0 {
				continue
			}
			mm := m
			if kind == 1 {
				mm = markUnordered(m).(*ref.Map)
			}
			add(mm, bridge.Variant{MapKind: kind})
		}
	}
	// closures
	for _, ar := range []int{1, 2} {
		cl := &ref.Closure{Arity: ar, Native: func(in *ref.Interp, a []ref.Value) (ref.Value, *ref.Err) { return int64(1), nil }}
		rc := value.Closure(funcGen.Function[value.Value]{Func: func(st funcGen.Stack[value.Value], cs []value.Value) (value.Value, error) { return value.Int(1), nil }, Args: ar, IsPure: true})
		pool = append(pool, c14val{cl, rc, fmt.Sprintf("closure/%d", ar), "closure"})
		if ar == 1 {
			// containers that hold a closure: not even identical to themselves by "="
			pool = append(pool, c14val{ref.NewList(cl), value.NewList(rc), "[closure/1]", "list"})
			pool = append(pool, c14val{ref.NewList(int64(1), cl), value.NewList(value.Int(1), rc), "[1, closure/1]", "list"})
			pool = append(pool, c14val{ref.MapOf("a", cl), value.NewMap(listMap.New[value.Value](1).Append("a", rc)), "{a:closure/1}", "map"})
		}
	}
	return pool
}

var c14pool []c14val
var c14poolKey string

func getC14Pool(seed int64, tier string) []c14val {
	k := fmt.Sprint(seed, tier)
	if c14poolKey != k {
		c14pool, c14poolKey = c14Pool(seed, tier), k
	}
	return c14pool
}

func (c14) Plan(tier string) wk.Plan {
	n := int64(len(c14Pool(1, tier)))
	cases := n*n + 20000
	if tier == "thorough" {
		cases = n*n + 2_000_000
	}
	return wk.Plan{
		Level: "exploration", Cases: cases, Chunk: 2000, Configs: single("seq", 16), CaseBudget: 20,
		Rule:        fmt.Sprintf("value pool of %d values (ints |x|<2^53 incl. boundaries, floats incl. +-0, +-Inf, neighbours of ints, subnormal, strings incl. empty/unicode/NUL, bools, nested lists eager and lazy, maps in 5 representations and different key orders, closures); the first %d cases are ALL ordered pairs (a,b): the 8 relations = != < > <= >= ~ plus min/max/switch/order are evaluated through Generate in both operand orders and checked against the laws (symmetry of =, != as negation, > as swapped <, <= as < or =, >= as swapped <=, irreflexivity/asymmetry of <, int/float by numeric value, ~ as exists-equal, derived built-ins consistent, incomparable -> error) and against the reference model; the remaining cases are random triples for transitivity of < and of = . Non-trivial = pair/triple of comparable, non-identical values or a container pair; distinct by the described values.", n, n*n),
		Floor:       1000,
		Assumptions: []string{"for containers that hold a partially incomparable pair, false vs error between a=b and b=a is accepted (which pair is met first is unspecified); true vs anything else is not", "NaN (scalar and inside lists) is in the pool for the operator laws and the model comparison; reflexivity of =, trichotomy and order/orderRev are not judged on values that contain NaN (the statement exempts NaN from reflexivity, and a sort is not determined without a total order)"},
	}
}

var c14funcs = map[string]funcGen.Func[value.Value]{}

func c14Eval(src string, args ...value.Value) bridge.Outcome {
	f, ok := c14funcs[src]
	if !ok {
		names := []string{"a", "b", "c"}[:len(args)]
		var err error
		var pan any
		f, err, pan = generate(getPlainVlang().opt, src, names)
		if err != nil || pan != nil {
			return bridge.Outcome{Err: fmt.Errorf("generate: %v %v", err, pan), Panic: pan}
		}
		c14funcs[src] = f
	}
	return evalReal(f, args)
}

// tri: outcome as "T", "F", "E" (error) or "?" (non-bool)
func tri(o bridge.Outcome) string {
	if o.Panic != nil {
		return "P"
	}
	if o.Err != nil {
		return "E"
	}
	if b, ok := o.Val.(value.Bool); ok {
		if b {
			return "T"
		}
		return "F"
	}
	return "?"
}

func neg(s string) string {
	switch s {
	case "T":
		return "F"
	case "F":
		return "T"
	}
	return s
}

func isContainer(k string) bool { return k == "list" || k == "map" }

func (c14) Run(c *wk.Case) {
	pool := getC14Pool(c.Seed, c.Tier)
	n := int64(len(pool))
	in := ref.NewInterp()
	if c.Index >= n*n {
		// triples
		x, y, z := pool[c.Rng.IntN(len(pool))], pool[c.Rng.IntN(len(pool))], pool[c.Rng.IntN(len(pool))]
		if c.Rng.IntN(2) == 0 {
			// bias to one comparable family
			fam := []string{"int", "float", "string"}[c.Rng.IntN(3)]
			pick := func() c14val {
				for {
					v := pool[c.Rng.IntN(len(pool))]
					if v.kind == fam || (fam != "string" && (v.kind == "int" || v.kind == "float")) {
						return v
					}
				}
			}
			x, y, z = pick(), pick(), pick()
		}
		lt := func(a, b c14val) string { return tri(c14Eval("a<b", a.real, b.real)) }
		eq := func(a, b c14val) string { return tri(c14Eval("a=b", a.real, b.real)) }
		if lt(x, y) == "T" && lt(y, z) == "T" && lt(x, z) != "T" {
			c.Violation("lt-not-transitive", fmt.Sprintf("%s < %s and %s < %s but %s < %s gives %s", x.desc, y.desc, y.desc, z.desc, x.desc, z.desc, lt(x, z)), map[string]any{"x": x.desc, "y": y.desc, "z": z.desc})
			return
		}
		scalar := !isContainer(x.kind) && !isContainer(y.kind) && !isContainer(z.kind)
		if scalar && eq(x, y) == "T" && eq(y, z) == "T" && eq(x, z) != "T" {
			c.Violation("eq-not-transitive", fmt.Sprintf("%s = %s and %s = %s but %s = %s gives %s", x.desc, y.desc, y.desc, z.desc, x.desc, z.desc, eq(x, z)), map[string]any{"x": x.desc, "y": y.desc, "z": z.desc})
			return
		}
		// trichotomy-style consistency on one family: exactly one of <, =, > for comparable scalars
		if lt(x, y) != "E" && scalar && !strings.Contains(x.desc+y.desc, "NaN") {
			cnt := 0
			for _, s := range []string{lt(x, y), eq(x, y), lt(y, x)} {
				if s == "T" {
					cnt++
				}
			}
			if cnt != 1 {
				c.Violation("not-exactly-one-of-lt-eq-gt", fmt.Sprintf("%s vs %s: <:%s =:%s >:%s", x.desc, y.desc, lt(x, y), eq(x, y), lt(y, x)), map[string]any{"x": x.desc, "y": y.desc})
				return
			}
		}
		// order/orderRev over three or four values agree with "<": sorted if all are comparable, an error if an
		// incomparable pair is met for certain (the model knows when), never an unjustified order
		vals := []c14val{x, y, z}
		if c.Rng.IntN(2) == 0 {
			vals = append(vals, pool[c.Rng.IntN(len(pool))])
		}
		var rl []ref.Value
		var ll []value.Value
		var ds []string
		for _, v := range vals {
			rl, ll, ds = append(rl, v.ref), append(ll, v.real), append(ds, v.desc)
		}
		ident := &ref.Closure{Arity: 1, Native: func(in *ref.Interp, a []ref.Value) (ref.Value, *ref.Err) { return a[0], nil }}
		for _, m := range []string{"order", "orderRev"} {
			if strings.Contains(strings.Join(ds, " "), "NaN") {
				break // no total order with NaN: the sorted sequence is not determined by "<"
			}
			wv, we := in.CallMethod(ref.NewList(rl...), m, []ref.Value{ident})
			if we != nil && we.Unspec {
				c.Count("reference_unspecified", 1)
				continue
			}
			got := c14Eval("a."+m+"(e->e)", value.NewList(ll...))
			fo := bridge.Force(got.Val, got.Err)
			if got.Panic != nil {
				fo.Panic = got.Panic
			}
			if v, why := bridge.CompareOutcome(wv, we, false, fo); v == bridge.Disagree {
				c.Violation("order-disagrees-with-less", fmt.Sprintf("[%s].%s(e->e): %s", strings.Join(ds, ", "), m, why), map[string]any{"values": ds, "method": m, "why": why})
				return
			}
			c.Count("order_checks", 1)
		}
		if lt(x, y) == "T" && lt(y, z) == "T" {
			c.NonTrivial(wk.Hash64("t", x.desc, y.desc, z.desc))
		}
		return
	}
	a, b := pool[c.Index/n], pool[c.Index%n]
	pair := fmt.Sprintf("a=%s b=%s", a.desc, b.desc)
	rel := map[string]string{}
	relRev := map[string]string{}
	for _, op := range []string{"=", "!=", "<", ">", "<=", ">=", "~"} {
		o := c14Eval("a"+op+"b", a.real, b.real)
		o2 := c14Eval("a"+op+"b", b.real, a.real)
		rel[op], relRev[op] = tri(o), tri(o2)
		if rel[op] == "P" || rel[op] == "?" {
			c.Violation("relation-no-bool-or-error:"+op, fmt.Sprintf("a%sb with %s: panic or non-bool result (%v %v)", op, pair, o.Val, o.Err), map[string]any{"pair": pair, "op": op})
			return
		}
		// M-ref
		wv, we := in.BinOp(op, a.ref, b.ref)
		if we != nil && we.Unspec {
			c.Count("reference_unspecified", 1)
			continue
		}
		want := "E"
		if we == nil {
			want = "F"
			if wv.(bool) {
				want = "T"
			}
		}
		if want != rel[op] {
			c.Violation("relation-differs-from-model:"+op, fmt.Sprintf("a%sb with %s: real %s, model %s", op, pair, rel[op], want), map[string]any{"pair": pair, "op": op, "real": rel[op], "model": want})
			return
		}
	}
	fail := func(sig, msg string) {
		c.Violation(sig, msg+" ("+pair+")", map[string]any{"pair": pair, "relations": rel, "reversed": relRev})
	}
	cont := isContainer(a.kind) && isContainer(b.kind)
	// symmetry of =
	if rel["="] != relRev["="] {
		if !(cont && ((rel["="] == "F" && relRev["="] == "E") || (rel["="] == "E" && relRev["="] == "F"))) {
			fail("eq-not-symmetric", fmt.Sprintf("a=b is %s but b=a is %s", rel["="], relRev["="]))
			return
		}
	}
	// containers holding a partially incomparable pair may answer false or fail, depending on which
	// pair is met first (the iteration order of hash maps changes between evaluations)
	compat := func(x, y string) bool {
		return x == y || (cont && ((x == "E" && y == "F") || (x == "F" && y == "E")))
	}
	if !compat(neg(rel["!="]), rel["="]) {
		fail("ne-is-not-negated-eq", fmt.Sprintf("a=b is %s, a!=b is %s", rel["="], rel["!="]))
		return
	}
	if rel[">"] != relRev["<"] {
		fail("gt-is-not-swapped-lt", fmt.Sprintf("a>b is %s, b<a is %s", rel[">"], relRev["<"]))
		return
	}
	if rel[">="] != relRev["<="] {
		fail("ge-is-not-swapped-le", fmt.Sprintf("a>=b is %s, b<=a is %s", rel[">="], relRev["<="]))
		return
	}
	wantLe := "E"
	if rel["<"] != "E" && rel["="] != "E" {
		wantLe = "F"
		if rel["<"] == "T" || rel["="] == "T" {
			wantLe = "T"
		}
	}
	if rel["<="] != wantLe {
		fail("le-is-not-lt-or-eq", fmt.Sprintf("a<b is %s, a=b is %s, a<=b is %s", rel["<"], rel["="], rel["<="]))
		return
	}
	if rel["<"] == "T" && relRev["<"] == "T" {
		fail("lt-not-asymmetric", "a<b and b<a")
		return
	}
	if c.Index/n == c.Index%n {
		if rel["<"] == "T" {
			fail("lt-not-irreflexive", "a<a")
			return
		}
		if a.kind != "closure" && !strings.Contains(a.desc, "closure") && !strings.Contains(a.desc, "NaN") && rel["="] != "T" {
			fail("eq-not-reflexive", fmt.Sprintf("a=a is %s", rel["="]))
			return
		}
	}
	// int/float by numeric value
	if (a.kind == "int" || a.kind == "float") && (b.kind == "int" || b.kind == "float") {
		fa, _ := numOf(a.ref)
		fb, _ := numOf(b.ref)
		want := "F"
		if fa == fb {
			want = "T"
		}
		if rel["="] != want {
			fail("numeric-equality", fmt.Sprintf("a=b is %s, numeric values %v / %v", rel["="], fa, fb))
			return
		}
		wantLt := "F"
		if fa < fb {
			wantLt = "T"
		}
		if rel["<"] != wantLt {
			fail("numeric-order", fmt.Sprintf("a<b is %s, numeric values %v / %v", rel["<"], fa, fb))
			return
		}
	}
	// membership: x ~ [b, a] exists-equal
	if !isContainer(a.kind) && a.kind != "closure" {
		o := tri(c14Eval("a~[b,b]", a.real, b.real))
		if rel["="] != "E" && o != rel["="] {
			fail("membership-is-not-exists-equal", fmt.Sprintf("a=b is %s but a~[b,b] is %s", rel["="], o))
			return
		}
		if rel["="] == "E" && o != "E" {
			fail("membership-is-not-exists-equal", fmt.Sprintf("a=b fails but a~[b,b] is %s", o))
			return
		}
	}
	// derived built-ins
	sw := tri(c14Eval("switch a case b: true default false", a.real, b.real))
	if !compat(sw, rel["="]) {
		fail("switch-disagrees-with-eq", fmt.Sprintf("a=b is %s, switch gives %s", rel["="], sw))
		return
	}
	if rel["<"] != "E" {
		mn := c14Eval("min(a,b)", a.real, b.real)
		mx := c14Eval("max(a,b)", a.real, b.real)
		if mn.Err != nil || mx.Err != nil {
			fail("minmax-fail-on-comparable", fmt.Sprintf("min/max fail: %v %v", mn.Err, mx.Err))
			return
		}
		// min must not be greater than either operand, max not less
		for _, side := range []value.Value{a.real, b.real} {
			if tri(c14Eval("a<b", side, mn.Val)) == "T" {
				fail("min-disagrees-with-lt", fmt.Sprintf("min(a,b)=%s but an operand is smaller", bridge.Describe(mn.Val)))
				return
			}
			if tri(c14Eval("a<b", mx.Val, side)) == "T" {
				fail("max-disagrees-with-lt", fmt.Sprintf("max(a,b)=%s but an operand is larger", bridge.Describe(mx.Val)))
				return
			}
		}
		ord := c14Eval("[a,b].order(x->x)", a.real, b.real)
		if ord.Err != nil {
			fail("order-fails-on-comparable", fmt.Sprint(ord.Err))
			return
		}
		if l, ok := listOf(ord.Val); ok && len(l) == 2 {
			if tri(c14Eval("a<b", l[1], l[0])) == "T" {
				fail("order-disagrees-with-lt", "sorted pair is descending")
				return
			}
		}
	} else {
		mn := c14Eval("min(a,b)", a.real, b.real)
		if mn.Err == nil && !(isContainer(a.kind) || isContainer(b.kind)) {
			fail("min-of-incomparable-values", fmt.Sprintf("a<b fails but min(a,b) gives %s", bridge.Describe(mn.Val)))
			return
		}
	}
	if (rel["<"] != "E" && c.Index/n != c.Index%n) || cont {
		c.NonTrivial(wk.Hash64("p", a.desc, b.desc, fmt.Sprint(c.Index)))
		if c.Index%700 == 0 {
			c.Sample(map[string]any{"a": a.desc, "b": b.desc, "relations": rel})
		}
	}
}

func numOf(v ref.Value) (float64, bool) {
	switch t := v.(type) {
	case int64:
		return float64(t), true
	case float64:
		return t, true
	}
	return 0, false
}
