package props

// C12 — Parse, Generate and evaluation leave no goroutine behind.
// Monitor M-gor: goroutine-profile differ. A case is a batch of repetitions of
// one workload item; afterwards every goroutine with a parser2/iterator frame
// or creator that is not in the baseline and is present - with the same id -
// in two snapshots taken >= 150 ms apart is a leak, keyed by
// (creator function, blocking function, state).

import (
	"fmt"
	"strings"
	"time"

	"github.com/hneemann/parser2/value"

	"verif/gen"
	"verif/mon"
	"verif/ref"
	"verif/wk"
)

type c12 struct{}

func init() { register("C12", c12{}) }

func (c12) Plan(tier string) wk.Plan {
	n := int64(500)
	cfgs := []wk.Config{{Name: "cpu4", CPUs: 4, Shards: 3}, {Name: "cpu1", CPUs: 1, Shards: 2}}
	if tier == "thorough" {
		n = 20000
		cfgs = []wk.Config{{Name: "cpu4", CPUs: 4, Shards: 3}, {Name: "cpu1", CPUs: 1, Shards: 2}, {Name: "cpu2-gmp8", CPUs: 2, GoMaxProcs: 8, Shards: 1}}
	}
	return wk.Plan{
		Level: "exploration", Cases: n, Chunk: 10, Configs: cfgs, CaseBudget: 120, HangIsViolation: true,
		Rule:          "case = one workload item repeated in a batch (parsing: 40 repetitions; pipelines: 6): (parse, 50%) every input class of C04 - in particular every way parsing stops before the end of input: syntax error inside an expression, trailing tokens (1, 2, many), unterminated string/comment, stray closing brackets, an error right in front of a character that becomes two tokens, generate-time errors - through Generate of the value, float and bool generators and the bare parser, comments on/off; (pipelines, 50%) evaluations whose consumer stops a parallel (map/accept with sleeping closures, > 12 elements) or channel-fed (merge, multiUse) stage early - first, top, present, indexWhere, single, ~ - and every error path (failing element before/after the switch to parallel execution, a source that fails from item K on for every K = 10..14 around the switch, failing consumer, try/catch around it, panicking host function), result consumed or dropped. After the batch the goroutine profile is compared with the baseline: a goroutine of parser2/iterator that survives two snapshots (poll window 5 s) is a leak. Non-trivial = batch that started goroutines (observed in the profile during or after the batch, or parse inputs that stop early); distinct by (config, item). The evidence reports leaked goroutines per repetition (slope) per signature.",
		Floor:         100,
		FloorCounters: map[string]int64{"snapshots": 200},
		Assumptions:   []string{"'short grace period' is decided as: gone within a 5 s polling window; only goroutines present with the same id in two snapshots count", "parallel stages rely on the dependency's timing switch; the evidence counts batches in which worker goroutines were actually seen"},
	}
}

var c12gens struct {
	val, valC *value.FunctionGenerator
}

func c12ParseInput(c *wk.Case) (string, string) {
	r := c.Rng
	valid := []string{"1+2", "a*b", "[1,2].size()", "let x=1; x+a", "f(1)", "{a:1}.a", "(x->x)(1)", "\"s\"+1"}
	v := valid[r.IntN(len(valid))]
	switch r.IntN(15) {
	case 13:
		// the parse stops right in front of a character the tokenizer turns into TWO tokens (superscript digits):
		// whoever releases the tokenizer goroutine must cope with both sends
		return []string{"(q)²", "(1+q)²", "let x=1; x y³", "[1,2}²", "(q)² + 1", v + " )²", v + " ) ²", v + " ) x²", "(q)²³", "1+q ²"}[r.IntN(10)], "error-before-two-token-rune"
	case 0:
		return v + " )", "trailing-1"
	case 1:
		return v + " ) 2 3", "trailing-3"
	case 2:
		return v + strings.Repeat(" x", 50+r.IntN(200)), "trailing-many"
	case 3:
		return "1+", "missing-operand"
	case 4:
		return "(1+2", "unbalanced"
	case 5:
		return "[1,2,", "unbalanced-list"
	case 6:
		return v + " \"abc", "unterminated-string-behind"
	case 7:
		return "\"abc", "unterminated-string"
	case 8:
		return v + " /* open", "unterminated-comment"
	case 9:
		return "unknownIdent + 1 + 2 + 3", "identifier-not-found-early"
	case 10:
		return "sqrt(1,2) + 3 + 4", "generate-time-error"
	case 11:
		return "1 2 3 4 5", "numbers"
	case 12:
		src, _ := c04Input(c)
		if len(src) > 2000 {
			src = src[:2000]
		}
		return src, "c04-class"
	default:
		return v, "valid"
	}
}

func c12Pipeline(c *wk.Case) (string, string) {
	r := c.Rng
	if (c.Index/2)%8 == 7 {
		// a source in front of a parallel stage fails from item K on (or only at item K), K walking through the
		// positions around the switch to workers (12 items): the consumer stops at the first error while
		// workers may hold results or may never have been given an item
		K := 10 + (c.Index/16)%5
		switch (c.Index / 80) % 4 { // every (K, shape) pair is met within 320 cases
		case 0:
			return fmt.Sprintf("numbers(40).number((i,n)->if n>=%d then failAt(n,n) else n).map(n->delay(tick(0,n),600)).reduce((a,b)->a+b)", K), fmt.Sprintf("par-source-fails-from-%d", K)
		case 1:
			return fmt.Sprintf("try numbers(60).iir(y->y,(y,l)->if y>=%d then failAt(y,y) else y+l*0).accept(n->delay(tick(0,n),600)>=0).size() catch 0", K), fmt.Sprintf("par-accept-source-fails-from-%d", K)
		case 2:
			return fmt.Sprintf("numbers(40).number((i,n)->if n=%d then failAt(n,n) else n).map(n->delay(tick(0,n),600)).sum()", K), fmt.Sprintf("par-source-fails-once-at-%d", K)
		default:
			return fmt.Sprintf("try numbers(40).combine((p,q)->if p>=%d then failAt(p,p) else p).map(n->delay(tick(0,n),600)).map(n->delay(n,300)).reduce((a,b)->a+b) catch 0", K), fmt.Sprintf("par-combine-source-fails-from-%d", K)
		}
	}
	slowMap := "numbers(300).map(x->delay(tick(0,x),250))"
	slowAcc := "numbers(300).accept(x->delay(tick(0,x),250)>=0)"
	src := []string{slowMap, slowAcc, slowMap + ".map(y->tick(1,y))", "numbers(300).number((i,x)->x).map(x->delay(tick(0,x),250))"}[r.IntN(4)]
	fail := []string{"failAt(x,5)", "failAt(x,40)", "hpanic2(x,40)"}[r.IntN(3)]
	items := [][2]string{
		{src + ".first()", "par-first"},
		{src + ".top(20).size()", "par-top"},
		{src + ".present(y->y=25)", "par-present"},
		{src + ".indexWhere(y->y=30)", "par-indexWhere"},
		{src + ".top(1).single()", "par-single"},
		{"25~" + src, "par-member"},
		{src + ".top(30).map(y->delay(y,250)).top(20).sum()", "par-nested-top"},
		{"numbers(300).map(x->delay(" + fail + ",250)).sum()", "par-error"},
		{"numbers(300).accept(x->delay(" + fail + ",250)>=0).size()", "par-error-accept"},
		{"try numbers(300).map(x->delay(" + fail + ",250)).sum() catch 0", "par-error-caught"},
		{src + ".mapReduce(0,(s,y)->if y=40 then failAt(y,40) else s+y)", "par-consumer-fails"},
		{"numbers(50).map(x->tick(0,x)).merge(numbers(50).map(x->tick(1,x)),(a,b)->a<b).first()", "merge-first"},
		{"numbers(100000).merge(numbers(100000),(a,b)->a<b).top(3).size()", "merge-top-large"},
		{"numbers(50).map(x->failAt(x,7)).merge(numbers(50),(a,b)->a<b).size()", "merge-error"},
		{"numbers(50).merge(numbers(50),(a,b)->failAt(a,7)<b).size()", "merge-less-fails"},
		{"numbers(100).multiUse({u:l->l.first(),v:l->l.top(3).size()}).string()", "multiUse-early"},
		{"numbers(100).multiUse({u:l->l.map(x->failAt(x,5)).sum(),v:l->l.size()}).string()", "multiUse-error"},
		{"numbers(100).map(x->failAt(x,5)).multiUse({u:l->l.sum(),v:l->l.size()}).string()", "multiUse-source-error"},
		{src + ".multiUse({u:l->l.first(),v:l->l.top(15).size()}).string()", "par-multiUse-early"},
		{"[1,2].cross(" + src + ".top(15),(a,b)->a+b).size()", "par-cross"},
		{src + ".top(15)", "par-lazy-result-dropped"},
		{"numbers(1000).map(x->tick(0,x)).first()", "seq-first"},
		// a panic (not an error) unwinding through the consumer of channel-fed stages with long sources
		{"try numbers(1000000000).merge(numbers(1000000000),(a,b)->hpanic2(a,3)<b).size() catch 0", "merge-less-panics"},
		{"numbers(1000000000).merge(numbers(1000000000),(a,b)->hpanic2(a,3)<b).size()", "merge-less-panics-uncaught"},
		{"try numbers(1000000000).merge(numbers(1000000000),(a,b)->a<b).map(x->hpanic2(x,5)).size() catch 0", "merge-consumer-panics"},
		{"[func less(a,b) if a>3 then less(a,b) else a<b; try numbers(1000000000).merge(numbers(1000000000), less).size() catch -1][0]", "merge-recursion-guard"},
		{"try numbers(1000000000).merge(numbers(1000000000),(a,b)->a<b).map(x->failAt(x,5)).size() catch 0", "merge-consumer-fails-long"},
		{"try numbers(100000).multiUse({u:l->l.map(x->hpanic2(x,5)).sum(),v:l->l.size()}).string() catch 0", "multiUse-consumer-panics"},
		{"try numbers(100000).map(x->hpanic2(x,5)).multiUse({u:l->l.sum(),v:l->l.size()}).string() catch 0", "multiUse-source-panics"},
		// a consumer behind a parallel stage panics (host function, recursion guard) instead of returning an error
		{"try " + src + ".reduce((p,q)->if q>=40 then hpanic2(q,q) else p+q) catch 0", "par-consumer-panics-reduce"},
		{src + ".mapReduce(0,(s,y)->hpanic2(y,40)+s)", "par-consumer-panics-mapReduce"},
		{"try " + src + ".number((i,y)->hpanic2(y,30)).sum() catch 0", "par-consumer-panics-number"},
		{"try " + src + ".iir(y->y,(y,l)->hpanic2(y,35)+l).size() catch 0", "par-consumer-panics-iir"},
		{"[func r(y) r(y+1); try " + src + ".reduce((p,q)->if q>=40 then r(q) else p+q) catch 0][0]", "par-consumer-recursion-guard"},
		{"try " + src + ".map(y->hpanic2(y,45)).sum() catch 0", "par-second-map-panics"},
		// a stage in FRONT of a parallel stage panics after the switch to workers; a source that keeps failing
		{"try numbers(300).number((i,x)->hpanic2(x,40)).map(x->delay(tick(0,x),250)).size() catch 0", "par-upstream-panics"},
		{"[func r(y) r(y)+1; try numbers(300).compact((p,q)->if p>30 then r(p)=q else false).map(x->delay(tick(0,x),250)).size() catch 0][0]", "par-upstream-recursion-guard"},
		{"try numbers(300).iir(y->y,(y,l)->hpanic2(y,40)+l*0).accept(x->delay(tick(0,x),250)>=0).size() catch 0", "par-accept-upstream-panics"},
		{"try numbers(2000000000).map(x->x.foo).merge([1,2,3],(a,b)->a<b).size() catch 0", "merge-source-fails-persistently"},
		{"try [1,2,3].merge(numbers(2000000000).map(x->failAt(x,x)),(a,b)->a<b).size() catch 0", "merge-second-source-fails-persistently"},
		{"try numbers(2000000000).map(x->x.foo).multiUse({u:l->l.size(),v:l->l.first()}).string() catch 0", "multiUse-source-fails-persistently"},
		// the source of multiUse panics in a stage that has no panic barrier of its own
		{"[func r(y) r(y)+1; try numbers(100).combine((p,q)->if p>5 then r(p) else p+q).multiUse({u:l->l.sum(),v:l->l.size()}).string() catch 0][0]", "multiUse-source-recursion-guard"},
		{"try numbers(100).iir(y->y,(y,l)->hpanic2(y,7)+l*0).multiUse({u:l->l.sum(),v:l->l.size()}).string() catch 0", "multiUse-source-panics-iir"},
		// misuse: the call is rejected after some of its goroutines may have been started
		{"try numbers(10).multiUse({a:l->l.reduce((a,b)->a+b), b:3}) catch 0", "multiUse-rejected-not-a-function"},
		{"try numbers(10).multiUse({a:l->l.sum(), b:l->l.size(), c:(x,y)->x}) catch 0", "multiUse-rejected-arity"},
		{"try numbers(10).multiUse({a:l->l.sum(), b:\"x\"}).a catch 0", "multiUse-rejected-string"},
		{"try numbers(10).merge(3,(a,b)->a<b).size() catch 0", "merge-rejected"},
		{"try numbers(10).merge(numbers(10),(a,b,c)->a<b).size() catch 0", "merge-rejected-arity"},
		{"try " + src + ".map((x,y)->x).size() catch 0", "par-then-rejected-arity"},
	}
	it := items[r.IntN(len(items))]
	return it[0], it[1]
}

var c12pipeGen *value.FunctionGenerator
var c12poisoned bool
var c12tickGids = &tickRec{gids: map[int64]bool{}}

func (c12) Run(c *wk.Case) {
	if c12gens.val == nil {
		c12gens.val = value.New()
		c12gens.valC = value.New()
		c12gens.valC.GetParser().AllowComments()
		c12pipeGen = value.New()
		pipeHost(c12pipeGen, func(stage, x int64) {
			g := gid()
			c12tickGids.mu.Lock()
			c12tickGids.gids[g] = true
			c12tickGids.mu.Unlock()
		})
		c12pipeGen.AddStaticFunction("hpanic2", pipePanic())
	}
	if c12poisoned {
		// goroutines leaked by an earlier case of this process are still computing (not blocked): they take
		// the CPUs away from everything that follows, so the rest of this shard is skipped, not judged
		c.Inconclusive("skipped-after-running-leak", "an earlier case of this worker process left running goroutines behind (reported as a violation there)")
		return
	}
	time.Sleep(2 * time.Millisecond)
	base := mon.Snapshot()
	item, class := "", ""
	reps := 0
	started := false
	if c.Index%2 == 0 {
		item, class = c12ParseInput(c)
		reps = 40
		cfg := c.Rng.IntN(5)
		for i := 0; i < reps; i++ {
			func() {
				defer func() { recover() }()
				switch cfg {
				case 0:
					c12gens.val.Generate(item, "a", "b", "f")
				case 1:
					c12gens.valC.Generate(item, "a", "b", "f")
				case 2:
					newFloatGen(3, true).g.Generate(item, "a", "b")
				case 3:
					newBoolGen(15, true).g.Generate(item, "a", "b")
				default:
					t := genTable(c.Rng)
					t.parser().Parse(item, nil)
				}
			}()
		}
		started = class != "valid"
	} else {
		item, class = c12Pipeline(c)
		reps = 6
		f, err, pan := generate(c12pipeGen, item, nil)
		if err != nil || pan != nil {
			c.Inconclusive("pipeline-rejected", fmt.Sprintf("%q: %v %v", item, err, pan))
			return
		}
		c12tickGids.reset()
		for i := 0; i < reps; i++ {
			func() {
				defer func() { recover() }()
				v, err := f.Eval()
				if err == nil && i%2 == 0 {
					// consume lazy results half of the time, drop them otherwise
					if l, ok := v.(*value.List); ok {
						n := 0
						for range l.Iterate(stackOf()) {
							n++
							if n > 5 {
								break
							}
						}
					}
				}
			}()
		}
		c12tickGids.mu.Lock()
		started = len(c12tickGids.gids) > 1 || strings.Contains(item, "merge") || strings.Contains(item, "multiUse")
		if len(c12tickGids.gids) > 3 {
			c.Count("batches_with_parallel_workers_observed", 1)
		}
		c12tickGids.mu.Unlock()
	}
	c.Logf("[%s] %q x%d", class, item, reps)
	sigs, n := mon.Leaks(base, 5*time.Second)
	c.Count("snapshots", 2)
	c.Count("class_"+class, 1)
	if n > 0 {
		for sig := range sigs {
			if strings.HasSuffix(sig, "[running]") || strings.HasSuffix(sig, "[runnable]") {
				c12poisoned = true
			}
		}
		for _, sig := range mon.SortedKeys(sigs) {
			c.Violation(sig, fmt.Sprintf("[%s, %s] after %d repetitions of %q %d goroutine(s) stay behind (%.2f per repetition): %v", c.Config, class, reps, truncate(item, 200), sigs[sig], float64(sigs[sig])/float64(reps), sigs),
				map[string]any{"item": item, "class": class, "repetitions": reps, "leaked": sigs, "config": c.Config})
		}
		return
	}
	if started {
		c.NonTrivial(wk.Hash64(c.Config, item))
		if c.Index%50 == 0 {
			c.Sample(map[string]any{"class": class, "item": truncate(item, 200), "repetitions": reps, "config": c.Config, "leaked": 0})
		}
	}
}

var _ = gen.TInt
var _ = ref.Int
