package props

// C15 — token layout, comments and literal escapes do not change meaning.
// Monitor M-ast: structural AST comparison between layout variants of one
// token sequence; token / AST / syntax-error lines against "1 + number of line
// feeds before the token's first character"; evaluated string literals and
// quoted identifiers; alias and juxtaposition forms against explicit ones.
// A failing layout variant is delta-debugged to a single separator.

import (
	"fmt"
	"math/rand/v2"
	"regexp"
	"sort"
	"strconv"
	"strings"
	"unicode"

	"github.com/hneemann/parser2"
	"github.com/hneemann/parser2/funcGen"
	"github.com/hneemann/parser2/value"

	"verif/gen"
	"verif/ref"
	"verif/wk"
)

type c15 struct{}

func init() { register("C15", c15{}) }

func (c15) Plan(tier string) wk.Plan {
	n := int64(100000)
	if tier == "thorough" {
		n = 1_500_000
	}
	return wk.Plan{
		Level: "exploration", Cases: n, Chunk: 400, Configs: single("seq", 16), CaseBudget: 30,
		Rule:        "case kinds: (layout, 40%) the token sequence of a generated valid program is re-joined with a random separator per adjacent pair - none where an independent lexer says the pair stays two tokens, blank, tab, CR, LF, CRLF, // comment + LF, /* */ comment tight or set off by blanks, comment bodies with quotes, stars, slashes (also directly behind the opening), line breaks - with comments enabled (and the comment-free subset with comments disabled): AST must equal the AST of the blank-separated layout; a difference is reduced to one separator and reported as (left token class, separator class, right token class); (lines, 20%) the public Tokenizer, AST identifier lines and the 'in line N' of the error for a stray token appended/prepended must equal 1 + LFs before the token; (literals, 20%) strings over unicode incl. quotes, backslashes, control characters, alias characters evaluate to exactly that string, quoted identifiers denote their exact content; (aliases/juxtaposition, 20%) superscripts and typographic aliases equal the ASCII spelling, comfort-mode juxtaposition patterns {number, identifier, ')'} x {number, identifier, '('} equal the explicit '*'. Non-trivial = variant contains a comment or line break / a string needing an escape / an alias; distinct by variant text.",
		Floor:       1000,
		Assumptions: []string{"the independent lexer of the harness decides which token pairs may be written tight", "a comment counts as no separator for comfort mode's blank-before-'(' rule (the property excepts that rule)"},
	}
}

// ---- independent lexer for canonical (printer-made) source ----

var c15ops = []string{"->", "<<", ">>", "<=", ">=", "!=", "|", "&", "=", "~", "<", ">", "+", "-", "*", "%", "/", "^", "!"}

type ctok struct {
	text  string
	class string // ident keyword number string qident op punct
}

func lexCanonical(src string) ([]ctok, bool) {
	var out []ctok
	rs := []rune(src)
	i := 0
	kw := map[string]bool{"let": true, "func": true, "if": true, "then": true, "else": true, "switch": true, "case": true, "default": true, "try": true, "catch": true, "const": true}
	for i < len(rs) {
		c := rs[i]
		switch {
		case c == ' ' || c == '\n' || c == '\t' || c == '\r':
			i++
		case c == '"':
			j := i + 1
			for j < len(rs) && rs[j] != '"' {
				if rs[j] == '\\' {
					j++
				}
				j++
			}
			if j >= len(rs) {
				return nil, false
			}
			out = append(out, ctok{string(rs[i : j+1]), "string"})
			i = j + 1
		case c == '\'':
			j := i + 1
			for j < len(rs) && rs[j] != '\'' {
				j++
			}
			if j >= len(rs) {
				return nil, false
			}
			out = append(out, ctok{string(rs[i : j+1]), "qident"})
			i = j + 1
		case unicode.IsLetter(c) || c == '_':
			j := i
			for j < len(rs) && (unicode.IsLetter(rs[j]) || unicode.IsDigit(rs[j]) || rs[j] == '_') {
				j++
			}
			t := string(rs[i:j])
			cl := "ident"
			if kw[t] {
				cl = "keyword"
			}
			out = append(out, ctok{t, cl})
			i = j
		case unicode.IsDigit(c):
			j := i
			for j < len(rs) && (unicode.IsDigit(rs[j]) || rs[j] == '.' || rs[j] == 'e' || ((rs[j] == '-' || rs[j] == '+') && rs[j-1] == 'e')) {
				j++
			}
			out = append(out, ctok{string(rs[i:j]), "number"})
			i = j
		case strings.ContainsRune("()[]{}.,:;", c):
			out = append(out, ctok{string(c), "punct"})
			i++
		default:
			if c == '/' && i+1 < len(rs) && (rs[i+1] == '/' || rs[i+1] == '*') {
				return nil, false // comment start: not canonical
			}
			found := ""
			for _, op := range c15ops {
				if strings.HasPrefix(string(rs[i:min(i+2, len(rs))]), op) && len(op) > len(found) {
					found = op
				}
			}
			if found == "" {
				return nil, false
			}
			out = append(out, ctok{found, "op"})
			i += len([]rune(found))
		}
	}
	return out, true
}

// tightOK: a and b written without separator stay exactly these two tokens (also with comments enabled).
func tightOK(a, b ctok) bool {
	if (a.class == "ident" || a.class == "keyword" || a.class == "number") && (b.class == "ident" || b.class == "keyword" || b.class == "number") {
		return false
	}
	if a.class == "number" && b.text == "." {
		return false
	}
	if b.class == "number" && a.text == "." {
		return false
	}
	l, ok := lexCanonical(a.text + b.text)
	return ok && len(l) == 2 && l[0].text == a.text && l[1].text == b.text
}

type sepSpec struct {
	text  string
	class string
}

var commentBodies = []string{"c", "", " a b ", "\"q\"", "'", "*", "**", "* /", "/", "/ x ", "//", "/*", "x*y/z", "\n", "l1\nl2\n", "a\r\nb", "ä×÷", "\"", "let x=1;"}

// genSepAfter: a comment written tight behind the operator '/' would read as "//" or "/*" of the
// operator itself, so behind '/' comments are set off by a blank.
func genSepAfter(r *rand.Rand, comments bool, tight bool, left ctok) sepSpec {
	s := genSep(r, comments, tight)
	if strings.HasSuffix(left.text, "/") && strings.HasPrefix(s.text, "/") {
		s.text = " " + s.text
		s.class += "-after-blank"
	}
	return s
}

func genSep(r *rand.Rand, comments bool, tight bool) sepSpec {
	for {
		switch k := r.IntN(12); {
		case k == 0 && tight:
			return sepSpec{"", "none"}
		case k == 1:
			return sepSpec{" ", "blank"}
		case k == 2:
			return sepSpec{"\t", "tab"}
		case k == 3:
			return sepSpec{"\r", "CR"}
		case k == 4:
			return sepSpec{"\n", "LF"}
		case k == 5:
			return sepSpec{"\r\n", "CRLF"}
		case k == 6:
			return sepSpec{"  \n\t ", "mixed-blanks"}
		case k >= 7 && comments:
			body := commentBodies[r.IntN(len(commentBodies))]
			switch k {
			case 7:
				if strings.ContainsAny(body, "\n\r") {
					continue
				}
				lead := ""
				if !tight || r.IntN(2) == 0 {
					lead = " "
				}
				return sepSpec{lead + "//" + body + "\n", "line-comment"}
			case 8, 9:
				if strings.Contains(body, "*/") {
					continue
				}
				if !tight {
					return sepSpec{" /*" + body + "*/", "block-comment-after-blank"}
				}
				return sepSpec{"/*" + body + "*/", "block-comment-tight"}
			case 10:
				if strings.Contains(body, "*/") {
					continue
				}
				return sepSpec{" /*" + body + "*/ ", "block-comment-set-off"}
			default:
				if strings.Contains(body, "*/") || !tight {
					continue
				}
				return sepSpec{"/*" + body + "*//**/", "two-block-comments-tight"}
			}
		case k >= 7:
			return sepSpec{" ", "blank"}
		}
	}
}

// ---- AST dump ----

func astDump(a parser2.AST) string {
	var sb strings.Builder
	dumpAST(&sb, a)
	// constants that are failing lazy lists print their error, which names a line: lines are not part of the structure
	return lineRe.ReplaceAllString(sb.String(), "in line N")
}

// constDump prints a constant canonically (maps sorted by key; failing lists as such).
func constDump(v value.Value, d int) (s string) {
	defer func() {
		if r := recover(); r != nil {
			s = "<panic>"
		}
	}()
	if d > 6 {
		return "..."
	}
	switch t := v.(type) {
	case nil:
		return "<nil>"
	case *value.List:
		sl, err := t.ToSlice(funcGen.NewEmptyStack[value.Value]())
		if err != nil {
			return "list<error>"
		}
		parts := make([]string, len(sl))
		for i, x := range sl {
			parts[i] = constDump(x, d+1)
		}
		// folded groupBy*/unique* results have no specified order: compare constants as multisets
		sort.Strings(parts)
		return "[" + strings.Join(parts, ",") + "]"
	case value.Map:
		var parts []string
		t.Iter(func(k string, x value.Value) bool {
			parts = append(parts, k+":"+constDump(x, d+1))
			return true
		})
		sort.Strings(parts)
		return "{" + strings.Join(parts, ",") + "}"
	case value.Closure:
		return fmt.Sprintf("func%d", t.Args)
	}
	return fmt.Sprintf("%T:%v", v, v)
}

func dumpAST(sb *strings.Builder, a parser2.AST) {
	switch n := a.(type) {
	case nil:
		sb.WriteString("<nil>")
	case *parser2.Ident:
		sb.WriteString("id:" + n.Name)
	case *parser2.Const[value.Value]:
		sb.WriteString("const(" + constDump(n.Value, 0) + ")")
	case *parser2.Const[float64]:
		sb.WriteString(fmt.Sprintf("const(%v)", n.Value))
	case *parser2.Let:
		sb.WriteString("(let " + n.Name + " ")
		dumpAST(sb, n.Value)
		sb.WriteString(" ")
		dumpAST(sb, n.Inner)
		sb.WriteString(")")
	case *parser2.If:
		sb.WriteString("(if ")
		dumpAST(sb, n.Cond)
		sb.WriteString(" ")
		dumpAST(sb, n.Then)
		sb.WriteString(" ")
		dumpAST(sb, n.Else)
		sb.WriteString(")")
	case *parser2.TryCatch:
		sb.WriteString("(try ")
		dumpAST(sb, n.Try)
		sb.WriteString(" ")
		dumpAST(sb, n.Catch)
		sb.WriteString(")")
	case *parser2.Switch[value.Value]:
		sb.WriteString("(switch ")
		dumpAST(sb, n.SwitchValue)
		for _, cs := range n.Cases {
			sb.WriteString(" case ")
			dumpAST(sb, cs.CaseConst)
			sb.WriteString(":")
			dumpAST(sb, cs.Value)
		}
		sb.WriteString(" default ")
		dumpAST(sb, n.Default)
		sb.WriteString(")")
	case *parser2.Operate:
		sb.WriteString("(" + n.Operator + " ")
		dumpAST(sb, n.A)
		sb.WriteString(" ")
		dumpAST(sb, n.B)
		sb.WriteString(")")
	case *parser2.Unary:
		sb.WriteString("(u" + n.Operator + " ")
		dumpAST(sb, n.Value)
		sb.WriteString(")")
	case *parser2.MapAccess:
		sb.WriteString("(." + n.Key + " ")
		dumpAST(sb, n.MapValue)
		sb.WriteString(")")
	case *parser2.MethodCall:
		sb.WriteString("(m:" + n.Name + " ")
		dumpAST(sb, n.Value)
		for _, x := range n.Args {
			sb.WriteString(" ")
			dumpAST(sb, x)
		}
		sb.WriteString(")")
	case *parser2.ListAccess:
		sb.WriteString("(idx ")
		dumpAST(sb, n.List)
		sb.WriteString(" ")
		dumpAST(sb, n.Index)
		sb.WriteString(")")
	case *parser2.ClosureLiteral:
		sb.WriteString("(clo[" + strings.Join(n.Names, ",") + "] ")
		dumpAST(sb, n.Func)
		sb.WriteString(")")
	case *parser2.MapLiteral:
		sb.WriteString("(map")
		n.Map.Iter(func(k string, v parser2.AST) bool {
			sb.WriteString(" " + k + "=")
			dumpAST(sb, v)
			return true
		})
		sb.WriteString(")")
	case *parser2.ListLiteral:
		sb.WriteString("(list")
		for _, x := range n.List {
			sb.WriteString(" ")
			dumpAST(sb, x)
		}
		sb.WriteString(")")
	case *parser2.FunctionCall:
		sb.WriteString("(call ")
		dumpAST(sb, n.Func)
		for _, x := range n.Args {
			sb.WriteString(" ")
			dumpAST(sb, x)
		}
		sb.WriteString(")")
	default:
		sb.WriteString(fmt.Sprintf("<%T>", a))
	}
}

var c15gens struct {
	plain, comments, noopt, nooptPlain *value.FunctionGenerator
	comfort, comfortC                  *funcGen.FunctionGenerator[float64]
}

func c15init() {
	if c15gens.plain != nil {
		return
	}
	c15gens.plain = value.New()
	c15gens.comments = value.New()
	c15gens.comments.GetParser().AllowComments()
	c15gens.noopt = value.New()
	c15gens.noopt.SetOptimizer(nil)
	c15gens.noopt.GetParser().AllowComments()
	c15gens.nooptPlain = value.New()
	c15gens.nooptPlain.SetOptimizer(nil)
	c15gens.comfort = newFloatGen(3, true).g
	c15gens.comfortC = newFloatGen(3, true).g
	c15gens.comfortC.GetParser().AllowComments()
}

func valueAST(g *value.FunctionGenerator, src string, args []string) (s string, ast parser2.AST, err error, pan any) {
	defer func() {
		if r := recover(); r != nil {
			pan = r
		}
	}()
	a, e := g.CreateAst(src, g.Identifier().AddArgs(args, nil))
	if e != nil {
		return "", nil, e, nil
	}
	return astDump(a), a, nil, nil
}

func floatAST(g *funcGen.FunctionGenerator[float64], src string, args []string) (s string, err error, pan any) {
	defer func() {
		if r := recover(); r != nil {
			pan = r
		}
	}()
	a, e := g.CreateAst(src, g.Identifier().AddArgs(args, nil))
	if e != nil {
		return "", e, nil
	}
	return astDump(a), nil, nil
}

func join(toks []ctok, seps []sepSpec) string {
	var sb strings.Builder
	for i, t := range toks {
		if i > 0 {
			sb.WriteString(seps[i-1].text)
		}
		sb.WriteString(t.text)
	}
	return sb.String()
}

func c15Program(c *wk.Case) (string, []string, []ctok, bool) {
	p := gen.GenProgram(c.Rng, gen.Dials{MaxDepth: 4, Budget: 22, VarLeaf: 0.5, Bind: 0.35}, c.Rng.IntN(3))
	src, ok := safeSource(p.Root, ref.PrintOpts{})
	if !ok {
		return "", nil, nil, false
	}
	toks, ok := lexCanonical(src)
	if !ok || len(toks) < 2 {
		return "", nil, nil, false
	}
	return src, p.ArgNames, toks, true
}

func (c15) Run(c *wk.Case) {
	c15init()
	switch k := c.Index % 10; {
	case k < 4:
		c15Layout(c)
	case k < 6:
		c15Lines(c)
	case k < 8:
		c15Literals(c)
	default:
		c15Aliases(c)
	}
}

func c15Layout(c *wk.Case) {
	_, args, toks, ok := c15Program(c)
	if !ok {
		return
	}
	// number spellings: some literals are rewritten with an exponent (unsigned, signed, with fraction), so that
	// a sign or another token written tight behind the exponent's digits is met; canonical and variant
	// layouts use the same spelling
	toks = append([]ctok{}, toks...)
	for i := range toks {
		if toks[i].class == "number" && c.Rng.IntN(3) == 0 && (i == 0 || toks[i-1].text != ".") {
			toks[i].text = []string{"1e3", "2e10", "1.5e2", "3e0", "1e-3", "2.5e+3", "7e1", "12e12"}[c.Rng.IntN(8)]
		}
	}
	comments := c.Index%3 != 0
	// the optimizer is switched off for the comparison: folded constants such as the string form of an
	// evaluated (hash) map differ from parse to parse, independent of the layout
	g := c15gens.nooptPlain
	if comments {
		g = c15gens.noopt
	}
	blank := make([]sepSpec, len(toks)-1)
	for i := range blank {
		blank[i] = sepSpec{" ", "blank"}
	}
	canon := join(toks, blank)
	want, _, err, pan := valueAST(g, canon, args)
	if err != nil || pan != nil {
		c.Inconclusive("canonical-layout-rejected", fmt.Sprintf("%q: %v %v", canon, err, pan))
		return
	}
	c.Evals(6) // six layout variants of the program are parsed and compared
	for v := 0; v < 6; v++ {
		seps := make([]sepSpec, len(toks)-1)
		for i := range seps {
			seps[i] = genSepAfter(c.Rng, comments, tightOK(toks[i], toks[i+1]), toks[i])
		}
		lead, trail := "", ""
		if c.Rng.IntN(4) == 0 {
			lead = genSep(c.Rng, comments, true).text
		}
		switch c.Rng.IntN(5) {
		case 0:
			trail = genSep(c.Rng, comments, true).text
		case 1:
			if comments {
				trail = []string{"//end", " // end of input without newline", "/*x*/", " /* open at the end"}[c.Rng.IntN(4)]
			}
		}
		text := lead + join(toks, seps) + trail
		got, _, err, pan := valueAST(g, text, args)
		if pan == nil && err == nil && got == want {
			c.Count("layout_variants_equal", 1)
			if strings.ContainsAny(text, "\n/") {
				c.NonTrivial(wk.Hash64(text))
				if c.Index%1000 == 0 && v == 0 {
					c.Sample(map[string]any{"kind": "layout", "canonical": canon, "variant": text})
				}
			}
			continue
		}
		// delta debugging: replace separators by a blank one at a time while the difference persists
		cur := append([]sepSpec{}, seps...)
		differs := func(s []sepSpec, ld, tr string) bool {
			g2, _, e2, p2 := valueAST(g, ld+join(toks, s)+tr, args)
			return p2 != nil || e2 != nil || g2 != want
		}
		if lead != "" && differs(cur, "", trail) {
			lead = ""
		}
		if trail != "" && differs(cur, lead, "") {
			trail = ""
		}
		for i := range cur {
			if cur[i].class == "blank" {
				continue
			}
			save := cur[i]
			cur[i] = sepSpec{" ", "blank"}
			if !differs(cur, lead, trail) {
				cur[i] = save
			}
		}
		var culprit []string
		for i := range cur {
			if cur[i].class != "blank" {
				culprit = append(culprit, fmt.Sprintf("%s | %s %q | %s", toks[i].class+":"+toks[i].text, cur[i].class, cur[i].text, toks[i+1].class+":"+toks[i+1].text))
			}
		}
		if lead != "" {
			culprit = append(culprit, fmt.Sprintf("leading %q", lead))
		}
		if trail != "" {
			culprit = append(culprit, fmt.Sprintf("trailing %q", trail))
		}
		reduced := lead + join(toks, cur) + trail
		sig := "layout-changes-ast"
		if len(culprit) == 1 {
			// signature = (left class, separator class, right class)
			for i := range cur {
				if cur[i].class != "blank" {
					sig = fmt.Sprintf("layout-changes-ast:%s|%s|%s", toks[i].class, cur[i].class, toks[i+1].class)
				}
			}
		}
		c.Violation(sig, fmt.Sprintf("comments=%v: layout variant %q: err=%v panic=%v ast-equal=%v; canonical %q; reduced to %q; responsible: %v", comments, text, err, pan, got == want, canon, reduced, culprit),
			map[string]any{"comments": comments, "variant": text, "canonical": canon, "reduced": reduced, "responsible": culprit, "error": fmt.Sprint(err), "ast_canonical": want, "ast_variant": got})
		return
	}
}

var lineRe = regexp.MustCompile(`in line (\d+)`)

func numberMatcher(r rune) (func(r rune) bool, bool) {
	if r >= '0' && r <= '9' {
		var last rune
		return func(r rune) bool {
			ok := (r >= '0' && r <= '9') || r == '.' || r == 'e' || (last == 'e' && (r == '-' || r == '+'))
			last = r
			return ok
		}, true
	}
	return nil, false
}

func identMatcher(r rune) (func(r rune) bool, bool) {
	if unicode.IsLetter(r) || r == '_' {
		return func(r rune) bool { return unicode.IsLetter(r) || unicode.IsDigit(r) || r == '_' }, true
	}
	return nil, false
}

func c15Lines(c *wk.Case) {
	_, args, toks, ok := c15Program(c)
	if !ok {
		return
	}
	seps := make([]sepSpec, len(toks)-1)
	for i := range seps {
		seps[i] = genSepAfter(c.Rng, true, tightOK(toks[i], toks[i+1]), toks[i])
	}
	// expected line of every token
	var sb strings.Builder
	lines := make([]int, len(toks))
	for i, t := range toks {
		if i > 0 {
			sb.WriteString(seps[i-1].text)
		}
		lines[i] = 1 + strings.Count(sb.String(), "\n")
		sb.WriteString(t.text)
	}
	text := sb.String()
	// 1. public tokenizer
	func() {
		defer func() {
			if r := recover(); r != nil {
				c.Violation("tokenizer-panics", fmt.Sprintf("%q: %v", text, r), map[string]any{"text": text})
			}
		}()
		ops := append([]string{}, c15ops...)
		tk := parser2.NewTokenizer(text, numberMatcher, identMatcher, parser2.NewOperatorDetector(ops)).SetComments(true).
			SetKeyWords([]string{"let", "func", "if", "then", "else", "switch", "case", "default", "try", "catch", "const"}).Start()
		i := 0
		for {
			t := tk.Next()
			if t.GetLine() < 0 {
				break // EOF token
			}
			if i >= len(toks) {
				c.Violation("tokenizer-token-count", fmt.Sprintf("%q: more tokens than the %d written", text, len(toks)), map[string]any{"text": text})
				return
			}
			img := t.String()
			exp := toks[i].text
			if toks[i].class == "string" || toks[i].class == "qident" {
				exp = "" // decoded image differs from the spelling
			}
			if exp != "" && !strings.HasPrefix(img, "'"+exp+"'") {
				c.Violation("tokenizer-token-image", fmt.Sprintf("%q: token %d is %s, written %q", text, i, img, toks[i].text), map[string]any{"text": text})
				return
			}
			if int(t.GetLine()) != lines[i] {
				c.Violation("token-line", fmt.Sprintf("%q: token %d %s reported in line %d, it starts in line %d", text, i, img, t.GetLine(), lines[i]), map[string]any{"text": text, "token": toks[i].text, "reported": int(t.GetLine()), "expected": lines[i]})
				return
			}
			i++
		}
		if i != len(toks) {
			c.Violation("tokenizer-token-count", fmt.Sprintf("%q: %d tokens instead of %d", text, i, len(toks)), map[string]any{"text": text})
		}
	}()
	// 2. AST identifier lines (optimizer off so that nodes survive)
	_, ast, err, pan := valueAST(c15gens.noopt, text, args)
	if err == nil && pan == nil && ast != nil {
		tokLines := map[string]map[int]bool{}
		for i, t := range toks {
			if t.class == "ident" {
				if tokLines[t.text] == nil {
					tokLines[t.text] = map[int]bool{}
				}
				tokLines[t.text][lines[i]] = true
			}
		}
		bad := ""
		ast.Traverse(parser2.VisitorFunc(func(a parser2.AST) bool {
			switch n := a.(type) {
			case *parser2.Ident:
				if m, ok := tokLines[n.Name]; ok && !m[int(n.GetLine())] {
					bad = fmt.Sprintf("identifier %s carries line %d, its occurrences start in lines %v", n.Name, n.GetLine(), keysOf(m))
				}
			case *parser2.Let:
				if m, ok := tokLines[n.Name]; ok && !m[int(n.GetLine())] {
					bad = fmt.Sprintf("let %s carries line %d, the name occurs in lines %v", n.Name, n.GetLine(), keysOf(m))
				}
			}
			return true
		}))
		if bad != "" {
			c.Violation("ast-line", fmt.Sprintf("%q: %s", text, bad), map[string]any{"text": text})
			return
		}
		c.Count("ast_line_checks", 1)
	}
	// 3. error line for a stray token behind / in front of the program
	stray := []string{")", "]", "}", ";", ","}[c.Rng.IntN(5)]
	sep := genSep(c.Rng, true, false)
	for _, variant := range []struct {
		src  string
		line int
	}{{text + sep.text + stray, 1 + strings.Count(text+sep.text, "\n")}, {sep.text + stray + " " + text, 1 + strings.Count(sep.text, "\n")}} {
		_, _, err, pan := valueAST(c15gens.comments, variant.src, args)
		if pan != nil {
			c.Violation("parse-panics", fmt.Sprintf("%q: %v", variant.src, pan), map[string]any{"text": variant.src})
			return
		}
		if err == nil {
			c.Violation("stray-token-accepted", fmt.Sprintf("%q accepted", variant.src), map[string]any{"text": variant.src})
			return
		}
		m := lineRe.FindStringSubmatch(err.Error())
		if m == nil {
			c.Count("error_without_line", 1)
			continue
		}
		if n, _ := strconv.Atoi(m[1]); n != variant.line {
			c.Violation("error-line", fmt.Sprintf("%q: error %q names line %d, the stray token %q starts in line %d", variant.src, truncate(err.Error(), 200), n, stray, variant.line), map[string]any{"text": variant.src, "reported": n, "expected": variant.line})
			return
		}
		c.Count("error_line_checks", 1)
	}
	if strings.Contains(text, "\n") {
		c.NonTrivial(wk.Hash64("l", text))
		if c.Index%1000 == 4 {
			c.Sample(map[string]any{"kind": "lines", "text": text, "token_lines": lines})
		}
	}
}

func keysOf(m map[int]bool) []int {
	var out []int
	for k := range m {
		out = append(out, k)
	}
	return out
}

func c15Literals(c *wk.Case) {
	s := gen.RandString(c.Rng, gen.TreeOpts{})
	s = strings.ReplaceAll(s, "\x00", "0")
	if c.Rng.IntN(3) == 0 {
		s += []string{"×", "÷", "•", "–", "ˆ", "²", "a×b", "\\", "\\\\", "\"", "\\\"", "\\n", "//x", "/*x*/", "'"}[c.Rng.IntN(15)]
	}
	switch c.Rng.IntN(8) {
	case 0:
		// a backslash in front of a letter that is an escape letter, in front of a quote, doubled, at the end
		s += []string{"\\n", "\\r", "\\t", "C:\\new\\table\\run", "\\\\n", "\\\"", "a\\", "\\\\", "\\n\n", "\\x41", "\\u0041", "\\0"}[c.Rng.IntN(12)]
	case 1:
		// the whole string is a word of the language
		s = []string{"if", "then", "else", "let", "func", "switch", "case", "default", "try", "catch", "true", "false", "pi", "sqrt", "a"}[c.Rng.IntN(15)]
	}
	g := c15gens.plain
	if c.Index%2 == 0 {
		g = c15gens.comments
	}
	lit := ref.QuoteStr(s)
	f, err, pan := generate(g, lit, nil)
	if pan != nil || err != nil {
		c.Violation("string-literal-rejected", fmt.Sprintf("literal %s for the string %q: err=%v panic=%v", lit, s, err, pan), map[string]any{"string": s, "literal": lit})
		return
	}
	got := evalReal(f, nil)
	if v, ok := got.Val.(value.String); !ok || string(v) != s {
		c.Violation("string-literal-denotes-other-string", fmt.Sprintf("literal %s denotes %s, written for %q", lit, bridgeDescribe(got.Val), s), map[string]any{"string": s, "literal": lit})
		return
	}
	// quoted identifier as map key
	k := strings.NewReplacer("'", "", "\n", "", "\r", "").Replace(s)
	src := "{'" + k + "':1}.list()[0].key"
	f2, err, pan := generate(g, src, nil)
	if pan != nil || err != nil {
		c.Violation("quoted-identifier-rejected", fmt.Sprintf("%q: err=%v panic=%v", src, err, pan), map[string]any{"key": k})
		return
	}
	got2 := evalReal(f2, nil)
	if v, ok := got2.Val.(value.String); !ok || string(v) != k {
		c.Violation("quoted-identifier-denotes-other-name", fmt.Sprintf("quoted identifier '%s' denotes %s", k, bridgeDescribe(got2.Val)), map[string]any{"key": k})
		return
	}
	if needsEscape(s) || strings.ContainsAny(s, "×÷•–ˆ") {
		c.NonTrivial(wk.Hash64("s", s))
		if c.Index%1000 == 6 {
			c.Sample(map[string]any{"kind": "literal", "string": s, "literal": lit})
		}
	}
}

func bridgeDescribe(v value.Value) string {
	if v == nil {
		return "<nil>"
	}
	return fmt.Sprintf("%T(%q)", v, fmt.Sprint(v))
}

func c15Aliases(c *wk.Case) {
	r := c.Rng
	if c.Index%2 == 0 {
		// typographic aliases and superscripts: value language
		atoms := []string{"a", "b", "2", "3.5", "(a+1)", "f1"}
		at := func() string { return atoms[r.IntN(len(atoms))] }
		type pair struct{ alias, ascii string }
		forms := []pair{{"•", "*"}, {"×", "*"}, {"÷", "/"}, {"–", "-"}, {"ˆ", "^"}}
		var alias, ascii strings.Builder
		// separators around the operator: the alias spelling with any white space or comment around it must
		// give the AST of the ASCII spelling set off by blanks
		gen := c15gens.plain
		seps := []string{"", " ", "", " ", "\t", "\n", "\r\n", " \n "}
		if c.Index%4 == 0 {
			gen = c15gens.comments
			seps = append(seps, "/*c*/", " /*c*/ ", "//c\n", "/* * / */", "/**/", "/*\n*/")
		}
		n := 1 + r.IntN(4)
		x := at()
		alias.WriteString(x)
		ascii.WriteString(x)
		for i := 0; i < n; i++ {
			if r.IntN(3) == 0 {
				d := r.IntN(10)
				alias.WriteString(string([]rune("⁰¹²³⁴⁵⁶⁷⁸⁹")[d]))
				ascii.WriteString("^" + strconv.Itoa(d))
				continue
			}
			f := forms[r.IntN(len(forms))]
			y := at()
			alias.WriteString(seps[r.IntN(len(seps))] + f.alias + seps[r.IntN(len(seps))] + y)
			ascii.WriteString(" " + f.ascii + " " + y)
		}
		args := []string{"a", "b", "f1"}
		w, _, e1, p1 := valueAST(gen, ascii.String(), args)
		g, _, e2, p2 := valueAST(gen, alias.String(), args)
		if p1 != nil || p2 != nil || (e1 == nil) != (e2 == nil) || w != g {
			c.Violation("alias-differs-from-ascii", fmt.Sprintf("%q: %v %v %s ; %q: %v %v %s", alias.String(), e2, p2, g, ascii.String(), e1, p1, w), map[string]any{"alias": alias.String(), "ascii": ascii.String()})
			return
		}
		c.NonTrivial(wk.Hash64("a", alias.String()))
		if c.Index%1000 == 8 {
			c.Sample(map[string]any{"kind": "alias", "alias": alias.String(), "ascii": ascii.String()})
		}
		return
	}
	// comfort mode juxtaposition: {number, identifier, ')'} x {number, identifier, '('}
	lefts := []string{"2", "0.5", "a", "b", "(a+1)", "sqr(b)"}
	rights := []string{"3", "1.5", "a", "b", "(b-1)", "sqr(a)"}
	l, rr := lefts[r.IntN(len(lefts))], rights[r.IntN(len(rights))]
	isNum := func(s string) bool { return s[0] >= '0' && s[0] <= '9' }
	isId := func(s string) bool { return s == "a" || s == "b" }
	tight := r.IntN(2) == 0
	if tight {
		// without blank only where the two stay separate tokens and no call is written
		if (isNum(l) || isId(l)) && (isNum(rr) || isId(rr) || strings.HasPrefix(rr, "sqr")) {
			tight = false
		}
		if isId(l) && strings.HasPrefix(rr, "(") {
			tight = false // a(b) is a call: the property excepts the blank before '('
		}
	}
	g := c15gens.comfort
	sep := " "
	if tight {
		sep = ""
	} else {
		// every kind of white space stands for the omitted sign, not only the blank
		ws := []string{" ", " ", "\t", "\n", "\r\n", "\n\n", " \n", "\n ", "\t \t", "\r"}
		if c.Index%4 == 1 {
			g = c15gens.comfortC
			ws = append(ws, "//c\n", " /*c*/", "/*c*/ ", " /*c*/ ", "\n/*c*/\n", "/*\n*/ ")
		}
		sep = ws[r.IntN(len(ws))]
	}
	pre := []string{"", "1+", "b/"}[r.IntN(3)]
	post := []string{"", "+1", "^2"}[r.IntN(3)]
	imp := pre + l + sep + rr + post
	exp := pre + l + "*" + rr + post
	w, e1, p1 := floatAST(g, exp, []string{"a", "b"})
	got, e2, p2 := floatAST(g, imp, []string{"a", "b"})
	if p1 != nil || p2 != nil || (e1 == nil) != (e2 == nil) || w != got {
		c.Violation("juxtaposition-differs-from-explicit-multiplication", fmt.Sprintf("comfort mode: %q: %v %v %s ; %q: %v %v %s", imp, e2, p2, got, exp, e1, p1, w), map[string]any{"implicit": imp, "explicit": exp})
		return
	}
	c.NonTrivial(wk.Hash64("j", imp))
	if c.Index%1000 == 9 {
		c.Sample(map[string]any{"kind": "juxtaposition", "implicit": imp, "explicit": exp})
	}
}
