package props

// C13 — all map representations behave as one abstract key-value map.
// G-hist over map operations; every live map is observed through member
// access, get, isAvail, ~, size, list(), string(), iteration-based methods,
// equality (against a literal of the model and against another
// representation) and the exporters, all compared with the finite-map model.

import (
	"bytes"
	"encoding/json"
	"fmt"
	"reflect"
	"sort"
	"strings"

	"github.com/hneemann/parser2/funcGen"
	"github.com/hneemann/parser2/value"
	"github.com/hneemann/parser2/value/export"

	"verif/bridge"
	"verif/ref"
	"verif/wk"
)

type c13 struct{}

func init() { register("C13", c13{}) }

func (c13) Plan(tier string) wk.Plan {
	n := int64(4000)
	if tier == "thorough" {
		n = 400_000
	}
	return wk.Plan{
		Level: "exploration", Cases: n, Chunk: 100, Configs: single("seq", 16), CaseBudget: 30,
		Rule:          "case = one history of up to 15 map operations over a pool of live handles: literal, put, + (disjoint and overlapping), replace with replacement keys inside and outside the key set (incl. chains deeper than the flattening threshold of 10), eval, map, accept, combine; keys from a colliding pool with odd spellings (blank, dot, empty key, non-ASCII); initial handles also include host-built maps (NewToMap, NewToMapReflection, NewFuncMapFactory, the bin maps of a binning). After every step every live map is observed: member access and get/isAvail/~ for every pool key, size, list(), string(), map/accept iteration, = against a literal of the model, = against the same content in 4 other representations, JSON export key set; all compared with the finite-map model. put of an existing key and + of overlapping maps must fail. Non-trivial = history reaches a wrapper nesting of depth >= 3 or a replace chain > 10; distinct by history text.",
		Floor:         100,
		FloorCounters: map[string]int64{"observations": 20000},
		Assumptions:   []string{"model: reference maps (ordered key/value lists compared as sets); iteration order is only compared where the representation keeps one", "combine with a key missing in the second map is left open (description vs implementation)"},
	}
}

type c13struct struct {
	A int
	B string
	C float64
	D bool
}

var c13toMap = value.NewToMap[c13struct]().
	Attr("A", func(s c13struct) value.Value { return value.Int(s.A) }).
	Attr("B", func(s c13struct) value.Value { return value.String(s.B) })

var c13refl = value.NewToMapReflection[c13struct]()

// a map backed by a function: of the declared keys, "c" is present for odd values only and "k1" never; the
// function also answers for "key", which is not declared (so it is no key of the map)
var c13fmf = value.NewFuncMapFactory[value.Int](func(v value.Int, key string) (value.Value, bool) {
	switch key {
	case "a":
		return v, true
	case "b":
		return v * 2, true
	case "c":
		return v + 100, v%2 == 1
	case "key":
		return value.Int(7), true
	}
	return nil, false
}, "a", "k1", "c", "b") // keys that are present follow keys that are absent

func (h *hist) hostMaps() {
	s := c13struct{A: int(h.r.IntN(5)), B: "x", C: 1.5, D: true}
	m1, _ := c13toMap.Create(s)
	h.hs = append(h.hs, &handle{ref: markUnordered(ref.MapOf("A", int64(s.A), "B", s.B)), real: m1, how: "NewToMap"})
	m2, _ := c13refl.Create(s)
	h.hs = append(h.hs, &handle{ref: markUnordered(ref.MapOf("A", int64(s.A), "B", s.B, "C", s.C, "D", s.D)), real: m2, how: "NewToMapReflection"})
	k := int64(h.r.IntN(5))
	fm := ref.MapOf("a", k, "b", 2*k)
	if k%2 == 1 {
		fm = ref.MapOf("a", k, "c", k+100, "b", 2*k)
	}
	h.hs = append(h.hs, &handle{ref: fm, real: c13fmf.Create(value.Int(k)), how: "NewFuncMapFactory"})
	h.log = append(h.log, "h0..h2 := host-built maps (NewToMap, NewToMapReflection, NewFuncMapFactory)")
}

func (h *hist) scalar() *ref.Node {
	switch h.r.IntN(4) {
	case 0:
		return ref.Int(int64(h.r.IntN(9)))
	case 1:
		return ref.Str([]string{"x", "", "y z"}[h.r.IntN(3)])
	case 2:
		return ref.Float(float64(h.r.IntN(9)) / 2)
	default:
		return ref.Bool(h.r.IntN(2) == 0)
	}
}

func (h *hist) key() string { return h.keyPool[h.r.IntN(len(h.keyPool))] }

func (h *hist) mapHandles() []*handle {
	var out []*handle
	for _, x := range h.hs {
		if _, ok := x.ref.(*ref.Map); ok {
			out = append(out, x)
		}
	}
	return out
}

func (h *hist) mapStep() {
	ms := h.mapHandles()
	op := h.r.IntN(12)
	if len(ms) == 0 {
		op = 0
	}
	pick := func() *handle { return ms[h.r.IntN(len(ms))] }
	h0 := ref.Id("h0")
	switch op {
	case 0, 1:
		n := h.r.IntN(5)
		var keys []string
		var vals []*ref.Node
		seen := map[string]bool{}
		for i := 0; i < n; i++ {
			k := h.key()
			if seen[k] {
				continue
			}
			seen[k] = true
			keys = append(keys, k)
			vals = append(vals, h.scalar())
		}
		if h.r.IntN(6) == 0 {
			// sizes around and beyond the point where a list map stops being efficient (about 20 entries)
			big := []int{18, 19, 20, 21, 22, 25, 32, 40}[h.r.IntN(8)]
			for i := 0; len(keys) < big; i++ {
				keys = append(keys, fmt.Sprintf("g%d", i))
				vals = append(vals, h.scalar())
			}
			h.c.Count("maps_with_more_than_17_entries", 1)
		}
		h.derive("literal", ref.MapN(keys, vals))
	case 2, 3:
		h.derive("put", ref.Method(h0, "put", ref.Str(h.key()), h.scalar()), pick())
	case 4:
		h.derive("+", ref.Bin("+", h0, ref.Id("h1")), pick(), pick())
	case 5, 6:
		// replace: replacement keys inside and outside
		m := pick()
		rm := m.ref.(*ref.Map)
		var keys []string
		var vals []*ref.Node
		seen := map[string]bool{}
		for i := 0; i < 1+h.r.IntN(3); i++ {
			k := h.key()
			if len(rm.Keys) > 0 && h.r.IntN(2) == 0 {
				k = rm.Keys[h.r.IntN(len(rm.Keys))]
			}
			if seen[k] {
				continue
			}
			seen[k] = true
			keys = append(keys, k)
			vals = append(vals, h.scalar())
		}
		h.derive("replace", ref.Method(h0, "replace", ref.Clo([]string{"p"}, ref.MapN(keys, vals))), m)
	case 7:
		h.derive("eval", ref.Method(h0, "eval"), pick())
	case 8:
		h.derive("map", ref.Method(h0, "map", ref.Clo([]string{"k", "v"}, ref.Bin("+", ref.Id("k"), ref.Static("string", ref.Id("v"))))), pick())
	case 9:
		h.derive("accept", ref.Method(h0, "accept", ref.Clo([]string{"k", "v"}, ref.Bin("!=", ref.Id("k"), ref.Str(h.key())))), pick())
	case 10:
		h.derive("combine", ref.Method(h0, "combine", ref.Id("h1"), ref.Clo([]string{"x", "y"}, ref.ListN(ref.Id("x"), ref.Id("y")))), pick(), pick())
	default:
		// branching: two or three derivations from ONE parent (preferably one made by + / accept / put, whose
		// storage may have room to spare), each adding other keys: they must not see each other's entries
		p := pick()
		for tries := 0; tries < 4 && !(strings.HasPrefix(p.how, "+") || p.how == "accept" || p.how == "put"); tries++ {
			p = pick()
		}
		for k := 0; k < 2+h.r.IntN(2) && !h.failed; k++ {
			nk := fmt.Sprintf("br%d_%d", len(h.hs), k)
			switch h.r.IntN(3) {
			case 0:
				h.derive("+branch", ref.Bin("+", h0, ref.MapN([]string{nk}, []*ref.Node{h.scalar()})), p)
			case 1:
				h.derive("put-branch", ref.Method(h0, "put", ref.Str(nk), h.scalar()), p)
			default:
				h.derive("+branch2", ref.Bin("+", h0, ref.MapN([]string{nk, nk + "x"}, []*ref.Node{h.scalar(), h.scalar()})), p)
			}
		}
	}
}

// observeMap runs every observer on handle i.
func (h *hist) observeMap(i int) bool {
	m, ok := h.hs[i].ref.(*ref.Map)
	if !ok {
		return true
	}
	h0 := ref.Id("h0")
	for _, k := range h.keyPool {
		if !h.observe(i, "member", ref.Member(h0, k)) || !h.observe(i, "get", ref.Method(h0, "get", ref.Str(k))) ||
			!h.observe(i, "isAvail", ref.Method(h0, "isAvail", ref.Str(k))) || !h.observe(i, "~", ref.Bin("~", ref.Str(k), h0)) {
			return false
		}
	}
	// isAvail with several keys: all of them must be present
	for n := 0; n < 4; n++ {
		k1, k2, k3 := h.key(), h.key(), h.key()
		if len(m.Keys) > 0 && n%2 == 0 {
			k2 = m.Keys[h.r.IntN(len(m.Keys))]
		}
		if !h.observe(i, "isAvail-2", ref.Method(h0, "isAvail", ref.Str(k1), ref.Str(k2))) || !h.observe(i, "isAvail-3", ref.Method(h0, "isAvail", ref.Str(k2), ref.Str(k1), ref.Str(k3))) {
			return false
		}
	}
	if !h.observe(i, "isAvail-0", ref.Method(h0, "isAvail")) {
		return false
	}
	if !h.observe(i, "size", ref.Method(h0, "size")) || !h.observe(i, "list", ref.Method(h0, "list")) || !h.observe(i, "string", ref.Method(h0, "string")) ||
		!h.observe(i, "map-iteration", ref.Method(ref.Method(h0, "map", ref.Clo([]string{"k", "v"}, ref.Id("k"))), "list")) ||
		!h.observe(i, "accept-iteration", ref.Method(ref.Method(h0, "accept", ref.Clo([]string{"k", "v"}, ref.Bool(true))), "size")) ||
		!h.observe(i, "eval-size", ref.Method(ref.Method(h0, "eval"), "size")) ||
		!h.observe(i, "list-size", ref.Method(ref.Method(h0, "list"), "size")) {
		return false
	}
	// isAvail over two keys
	if !h.observe(i, "isAvail2", ref.Method(h0, "isAvail", ref.Str(h.key()), ref.Str(h.key()))) {
		return false
	}
	// equality against the model in other representations
	plain := &ref.Map{Keys: m.Keys, Vals: m.Vals}
	for kind := 0; kind < 5; kind++ {
		if kind >= 2 && len(m.Keys) == 0 {
			continue
		}
		other := &handle{ref: plain, real: bridge.RealMap(plain, bridge.Variant{MapKind: kind}), how: "model literal"}
		if kind == 1 {
			other.ref = markUnordered(plain)
		}
		if !h.observe(i, fmt.Sprintf("equals-model-representation-%d", kind), ref.Bin("=", h0, ref.Id("h1")), other) ||
			!h.observe(i, fmt.Sprintf("model-representation-%d-equals", kind), ref.Bin("=", ref.Id("h1"), h0), other) {
			return false
		}
	}
	// reversed key order
	if len(m.Keys) > 1 {
		rev := &ref.Map{}
		for j := len(m.Keys) - 1; j >= 0; j-- {
			rev.Keys = append(rev.Keys, m.Keys[j])
			rev.Vals = append(rev.Vals, m.Vals[j])
		}
		other := &handle{ref: rev, real: bridge.RealMap(rev, bridge.Variant{}), how: "model literal reversed"}
		if !h.observe(i, "equals-reversed-key-order", ref.Bin("=", h0, ref.Id("h1")), other) {
			return false
		}
	}
	// a map that differs in one value / lacks one key must not be equal
	if len(m.Keys) > 0 {
		diff := &ref.Map{Keys: m.Keys, Vals: append([]ref.Value{}, m.Vals...)}
		diff.Vals[len(diff.Vals)-1] = "##different##"
		other := &handle{ref: diff, real: bridge.RealMap(diff, bridge.Variant{}), how: "model literal with one value changed"}
		if !h.observe(i, "not-equal-changed-value", ref.Bin("=", h0, ref.Id("h1")), other) {
			return false
		}
	}
	// JSON export key set
	if rm, ok := h.hs[i].real.(value.Map); ok {
		ex := export.JSON()
		var err error
		func() {
			defer func() {
				if r := recover(); r != nil {
					err = fmt.Errorf("panic %v", r)
				}
			}()
			err = export.Export(funcGen.NewEmptyStack[value.Value](), rm, ex)
		}()
		if err == nil {
			var dec map[string]any
			if e := json.NewDecoder(bytes.NewReader(ex.Result())).Decode(&dec); e != nil {
				h.violation("observer:json-export", fmt.Sprintf("handle h%d: JSON export does not decode: %v", i, e))
				return false
			}
			// the keys as written (token stream): a key exported twice must show
			var got, want []string
			td := json.NewDecoder(bytes.NewReader(ex.Result()))
			depth := 0
			expectKey := false
			for {
				tok, e := td.Token()
				if e != nil {
					break
				}
				switch t := tok.(type) {
				case json.Delim:
					if t == '{' || t == '[' {
						depth++
						expectKey = t == '{' && depth == 1
					} else {
						depth--
						expectKey = depth == 1
					}
				case string:
					if depth == 1 && expectKey {
						got = append(got, t)
						expectKey = false
					} else if depth == 1 {
						expectKey = true
					}
				default:
					if depth == 1 {
						expectKey = true
					}
				}
			}
			want = append(want, m.Keys...)
			sort.Strings(got)
			sort.Strings(want)
			if !reflect.DeepEqual(got, want) && !(len(got) == 0 && len(want) == 0) {
				h.violation("observer:json-export", fmt.Sprintf("handle h%d: JSON export has keys %q, model %q", i, got, want))
				return false
			}
			h.c.Count("observations", 1)
		}
	}
	return true
}

func mapDepth(s value.MapStorage, d int) int {
	if d > 40 {
		return d
	}
	v := reflect.ValueOf(s)
	best := d
	if v.Kind() == reflect.Struct {
		for i := 0; i < v.NumField(); i++ {
			f := v.Field(i)
			if f.Kind() == reflect.Interface && !f.IsNil() && f.CanInterface() {
				if ms, ok := f.Interface().(value.MapStorage); ok {
					if x := mapDepth(ms, d+1); x > best {
						best = x
					}
				}
			}
		}
	}
	return best
}

func (c13) Run(c *wk.Case) {
	h := newHist(c)
	deepReplace := c.Index%7 == 3
	if c.Index%4 == 0 {
		h.hostMaps()
		for i := range h.hs {
			if !h.observeMap(i) {
				return
			}
		}
	}
	steps := 4 + h.r.IntN(12)
	maxDepth, replChain := 0, 0
	if deepReplace {
		// a chain of replaces beyond the flattening threshold, replacement keys inside and outside
		h.derive("literal", ref.MapN([]string{"a", "b", "c"}, []*ref.Node{ref.Int(1), ref.Int(2), ref.Int(3)}))
		for k := 0; k < 10+h.r.IntN(16) && !h.failed && len(h.hs) > 0; k++ {
			last := h.hs[len(h.hs)-1]
			keys := []string{[]string{"a", "b", "c", "z", "key"}[h.r.IntN(5)]}
			if h.r.IntN(3) == 0 {
				keys = append(keys, "outside")
			}
			vals := make([]*ref.Node, len(keys))
			for j := range vals {
				vals[j] = ref.Int(int64(100 + k))
			}
			if h.derive("replace", ref.Method(ref.Id("h0"), "replace", ref.Clo([]string{"p"}, ref.MapN(keys, vals))), last) != nil {
				replChain++
			}
		}
		steps = 3
	}
	for s := 0; s < steps && !h.failed; s++ {
		before := len(h.hs)
		h.mapStep()
		if h.failed {
			return
		}
		// observe all live maps (new one and all earlier ones)
		from := 0
		if len(h.hs) == before {
			continue
		}
		if len(h.hs) > 8 {
			from = len(h.hs) - 8
		}
		for i := from; i < len(h.hs); i++ {
			if !h.observeMap(i) {
				return
			}
		}
	}
	if deepReplace && !h.failed {
		for i := range h.hs {
			if !h.observeMap(i) {
				return
			}
		}
	}
	for _, x := range h.hs {
		if rm, ok := x.real.(value.Map); ok {
			if d := mapDepth(rm.Storage(), 1); d > maxDepth {
				maxDepth = d
			}
		}
	}
	c.Max("storage_wrapper_depth", int64(maxDepth))
	c.Max("replace_chain", int64(replChain))
	if maxDepth >= 3 || replChain > 10 {
		c.NonTrivial(wk.Hash64(h.describeHistory()))
		if c.Index%200 == 0 {
			c.Sample(map[string]any{"history": h.log, "storage_wrapper_depth": maxDepth})
		}
	}
}
